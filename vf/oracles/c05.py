"""C05 oracle: grammar generator, case files, CPython json.loads judge, libFuzzer stage.

Stages (see vf/specs/c05.py):
  gen    -> writes c05.cases.<k>.tsv (one per harness shard) + c05.corpus/ (seeds for the fuzzer)
  c05    -> harness/c05.cc executes the cases on the real parser, writes c05.obs.<k>.tsv
  judge  -> compares the observations with json.loads of the same bytes (this file)
  fuzz   -> builds harness/c05_fuzz.cc with clang libFuzzer and runs it bounded by -runs=N -seed=S

Reference conventions
  * a document is a byte string; it is decoded as latin-1 before json.loads, so code point <-> byte
    (phosg strings are byte strings and \\u00XX denotes the single byte XX)
  * "in scope" (the property's quantifier): integers without fraction/exponent within int64, other numbers
    zero or within the normal double range, every string code point <= U+00FF, unique keys, nesting <= 500
  * numbers are compared numerically (integer literals exactly, others with relative tolerance 1e-12);
    int/float kind is NOT compared; when the reference value is a zero and phosg returns a float, the sign bit
    is compared as well (-0.0, -0e0 are negative zero; the integer literal -0 is int 0)
"""
import glob
import json
import math
import multiprocessing
import multiprocessing.pool
import os
import random
import re
import shutil
import subprocess
import sys
import threading
import time
from fractions import Fraction

NSHARDS = 16
I64_MIN, I64_MAX = -(1 << 63), (1 << 63) - 1
DBL_MIN_NORMAL = 2.2250738585072014e-308
WS = " \t\n\r"
ALPHABET = [ord(c) for c in '{}[]",:\\/0123456789eE.+-xntf'] + [0x00, 0x80, 0xFF]
MAX_DEPTH = 500

_NUM_RE = re.compile(r"(-?)(\d+)(\.\d+)?([eE]([+-]?)(\d+))?$")


# ------------------------------------------------------------------------------------------------
# reference reader

class IntLit(int):
    pass


class FloatLit(float):
    pass


def _pi(s):
    v = IntLit(s)
    v.lit = s
    return v


def _pf(s):
    v = FloatLit(s)
    v.lit = s
    return v


class _Dup(Exception):
    pass


def _pairs(pairs):
    d = {}
    for k, v in pairs:
        if k in d:
            raise _Dup(k)
        d[k] = v
    return d


def _noconst(name):
    raise ValueError("non-standard constant")


def _scope(v, depth=1):
    """None if the value is inside the property's quantifier, else the reason."""
    if isinstance(v, IntLit):
        return None if I64_MIN <= v <= I64_MAX else "int-beyond-int64"
    if isinstance(v, FloatLit):
        m = _NUM_RE.match(v.lit)
        if m.group(4) and len(m.group(6).lstrip("0")) > 3:
            return "exponent-digits>3"
        if v == 0:
            mant = (m.group(2) + (m.group(3) or "")).replace(".", "")
            return None if mant.strip("0") == "" else "underflow"
        if v != v or v in (float("inf"), float("-inf")):
            return "overflow"
        return None if abs(v) >= DBL_MIN_NORMAL else "denormal"
    if isinstance(v, str):
        return None if all(ord(c) <= 0xFF for c in v) else "codepoint>U+00FF"
    if isinstance(v, list):
        if depth > MAX_DEPTH:
            return "nesting>500"
        for x in v:
            r = _scope(x, depth + 1)
            if r:
                return r
        return None
    if isinstance(v, dict):
        if depth > MAX_DEPTH:
            return "nesting>500"
        for k, x in v.items():
            r = _scope(k) or _scope(x, depth + 1)
            if r:
                return r
        return None
    return None


def reference(doc):
    """doc: bytes.  Returns ('invalid', None) | ('outscope', (reason, value)) | ('valid', value)."""
    try:
        val = json.loads(doc.decode("latin-1"), parse_int=_pi, parse_float=_pf, parse_constant=_noconst,
                         object_pairs_hook=_pairs)
    except _Dup:
        return ("outscope", ("duplicate-key", None))
    except RecursionError:
        return ("outscope", ("nesting>500", None))
    except ValueError:
        return ("invalid", None)
    r = _scope(val)
    if r:
        return ("outscope", (r, val))
    return ("valid", val)


def numclass(lit):
    m = _NUM_RE.match(lit)
    if not m:
        return "number:?"
    if not m.group(3) and not m.group(4):
        return "number:int"
    frac = "frac" if m.group(3) else "nofrac"
    exp = "noexp" if not m.group(4) else ("exp-" if m.group(5) == "-" else "exp+")
    if m.group(4) and abs(int(m.group(6))) >= 309:
        return "number:written-exponent>=309:" + exp   # non-normalised numeral, the value itself is in range
    if int(m.group(2)) > I64_MAX:
        return "number:integer-part-beyond-int64"
    return "number:%s:%s" % (frac, exp)


def _close(a, b):
    if a == b:
        return True
    return abs(a - b) <= 1e-12 * max(abs(a), abs(b))


def _unfaithful(s, b):
    """For strings with code points above U+00FF (unsupported by phosg): accepted only if every code point
    <= 0xFF became that byte and every other one its UTF-8 encoding."""
    want = b"".join(bytes([ord(c)]) if ord(c) <= 0xFF else c.encode("utf-8", "surrogatepass") for c in s)
    return want != b


def compare(ref, tag, path="$", lenient_unicode=False):
    """ref: value from reference(); tag: json.loads of the harness's tagged dump.  None or (class, detail)."""
    if ref is None or ref is True or ref is False:
        return None if tag is ref else ("literal", "%s: expected %r got %r" % (path, ref, tag))
    if isinstance(ref, (IntLit, FloatLit)):
        if not isinstance(tag, str) or tag[:1] not in "id":
            return (numclass(ref.lit), "%s: number %s came back as %r" % (path, ref.lit, tag))
        got = int(tag[1:]) if tag[0] == "i" else float.fromhex(tag[1:])
        if isinstance(ref, IntLit):
            ok = (got == int(ref)) if tag[0] == "i" else (got == got and abs(got) != float("inf") and Fraction(got) == int(ref))
        else:
            ok = _close(float(got), float(ref))
            if ok and float(ref) == 0 and tag[0] == "d" and math.copysign(1.0, got) != math.copysign(1.0, float(ref)):
                # -0.0 / -0e0 / -0.000E+2 denote negative zero (CPython: copysign(1, x) == -1); an int result has no sign
                return ("number:zero-sign", "%s: number %s is %r for the reference, came back as %r (sign bit differs)" % (
                    path, ref.lit, float(ref), got))
        return None if ok else (numclass(ref.lit), "%s: number %s (= %r) came back as %s %r" % (
            path, ref.lit, ref.real if isinstance(ref, FloatLit) else int(ref), "int" if tag[0] == "i" else "float", got))
    if isinstance(ref, str):
        if not isinstance(tag, str) or tag[:1] != "s":
            return ("string", "%s: string came back as %r" % (path, tag))
        b = bytes.fromhex(tag[1:])
        if lenient_unicode and any(ord(c) > 0xFF for c in ref):
            return ("unsupported-escape-misvalued", "%s: %r came back as bytes %s" % (path, ref[:40], b.hex()[:80])) if _unfaithful(ref, b) else None
        try:
            want = ref.encode("latin-1")
        except UnicodeEncodeError:
            return ("string", "%s: reference string has code points above U+00FF" % path)
        return None if b == want else ("string", "%s: bytes %s came back as %s" % (path, want.hex()[:80], b.hex()[:80]))
    if isinstance(ref, list):
        if not isinstance(tag, list) or len(tag) != len(ref):
            return ("structure", "%s: list of %d came back as %s" % (path, len(ref), "list of %d" % len(tag) if isinstance(tag, list) else type(tag).__name__))
        for i, (a, b) in enumerate(zip(ref, tag)):
            r = compare(a, b, "%s[%d]" % (path, i), lenient_unicode)
            if r:
                return r
        return None
    if isinstance(ref, dict):
        if not isinstance(tag, dict):
            return ("structure", "%s: object came back as %s" % (path, type(tag).__name__))
        if lenient_unicode and any(ord(c) > 0xFF for k in ref for c in k):
            want = {"k" + b"".join(bytes([ord(c)]) if ord(c) <= 0xFF else c.encode("utf-8", "surrogatepass") for c in k).hex(): v for k, v in ref.items()}
        else:
            try:
                want = {"k" + k.encode("latin-1").hex(): v for k, v in ref.items()}
            except UnicodeEncodeError:
                return ("key", "%s: reference key above U+00FF" % path)
        if set(want) != set(tag):
            return ("key" if not lenient_unicode else "unsupported-escape-misvalued", "%s: key set differs: missing %s unexpected %s" % (path, sorted(set(want) - set(tag))[:3], sorted(set(tag) - set(want))[:3]))
        for k, a in want.items():
            r = compare(a, tag[k], "%s{%s}" % (path, k), lenient_unicode)
            if r:
                return r
        return None
    return ("?", "unexpected reference value %r" % (ref,))


# ------------------------------------------------------------------------------------------------
# grammar generator: documents are token lists + whitespace gaps so that single edits are exact

class Doc:
    def __init__(self, toks, value):
        self.toks = toks          # list of (kind, text)
        self.value = value        # python value the generator intends
        self.ws = [""] * (len(toks) + 1)

    def text(self):
        out = [self.ws[0]]
        for (k, t), w in zip(self.toks, self.ws[1:]):
            out.append(t)
            out.append(w)
        return "".join(out)

    def bytes(self):
        return self.text().encode("latin-1")

    def copy(self):
        d = Doc(list(self.toks), self.value)
        d.ws = list(self.ws)
        return d


BOUNDARY_INTS = [0, 1, -1, 9, 10, -10, 99, 100, 127, 128, 255, 256, 65535, 65536, 2147483647, 2147483648, -2147483648,
                 -2147483649, 4294967295, 4294967296, 9007199254740992, 9007199254740993, 999999999999999999,
                 1000000000000000000, I64_MAX, I64_MAX - 1, I64_MIN, I64_MIN + 1]
SPECIAL_NUMS = ["5e-1", "1E+2", "-0.0", "1e19", "1e+20", "1.0e+20", "0.5", "0e0", "0.0e-5", "1e0", "1e-0", "-0", "0.0",
                "123456789012345678901234567890.5", "12345678901234567890e-5", "9223372036854775807.0",
                "9223372036854775808.0", "-9223372036854775809.5", "1e308", "1.7976931348623157e308", "2.2250738585072014e-308",
                "1e-307", "0.000000000000000000000000000001", "100000000000000000000.0", "1.5E+300", "-1e-300", "1e18", "1e-5",
                "25e-1", "1e1", "2E0", "1e05", "1E-007", "3.141592653589793", "-10.5", "1.4", "6.02214076e23", "6.62607015E-34",
                "0.1", "0.30000000000000004", "1e+0", "120e-2", "12e3", "5E-1", "-5e-1", "1.0E2", "99e-2", "1e-1", "9e-1",
                "10e-1", "1000e-3", "123e-2", "1e2", "1e3", "7e0",
                "-0e0", "-0.000E+2", "-0E-5", "0e10", "-0.0e-300", "-0.0E+300", "-0.00000000000000000000", "0.000e-0", "-0e-0",
                "-0E+340", "0E-340", "-0.0e0", "0.0E+0", "-0e+5"]
SIMPLE_ESC = {'"': '"', "\\": "\\", "/": "/", "b": "\b", "f": "\f", "n": "\n", "r": "\r", "t": "\t"}


def gen_int(rng):
    c = rng.random()
    if c < 0.3:
        v = rng.choice(BOUNDARY_INTS)
    elif c < 0.6:
        v = rng.randint(-1000, 1000)
    elif c < 0.8:
        k = rng.randrange(63)
        v = (1 << k) + rng.choice((-1, 0, 1))
        if rng.random() < 0.5:
            v = -v
    else:
        v = int("".join(rng.choice("0123456789") for _ in range(rng.randint(1, 18))) or "0")
        if rng.random() < 0.4:
            v = -v
    v = max(I64_MIN, min(I64_MAX, v))
    text = str(v)
    if v == 0 and rng.random() < 0.2:
        text = "-0"
    return _pi(text), text


def gen_float(rng):
    for _ in range(200):
        c0 = rng.random()
        if c0 < 0.2:
            text = rng.choice(SPECIAL_NUMS + LONG_RUN_NUMS)
            if _NUM_RE.match(text).group(3) is None and _NUM_RE.match(text).group(4) is None:
                continue
        elif c0 < 0.4:
            text = nonnormal_literal(rng, rng.randint(-340, 340), rng.choice(("int", "frac")))
            if text is None:
                continue
        else:
            sign = "-" if rng.random() < 0.3 else ""
            c = rng.random()
            if c < 0.35:
                ip = "0"
            else:
                n = rng.randint(1, 4) if c < 0.85 else rng.randint(5, 40)
                ip = rng.choice("123456789") + "".join(rng.choice("0123456789") for _ in range(n - 1))
            frac = ""
            if rng.random() < 0.7:
                n = rng.randint(1, 6) if rng.random() < 0.85 else rng.randint(7, 40)
                frac = "." + "".join(rng.choice("0123456789") for _ in range(n))
            exp = ""
            if not frac or rng.random() < 0.5:
                mag = rng.choice((0, 1, 1, 2, 3, 5, 10, 19, 20, 22, 23, 100, 250, 300, 307))
                if rng.random() < 0.4:
                    mag = rng.randint(0, 300)
                es = rng.choice(("", "+", "-"))
                ds = str(mag)
                if rng.random() < 0.15:
                    ds = "0" * rng.randint(1, 2) + ds
                exp = rng.choice("eE") + es + ds[-3:] if len(ds.lstrip("0")) > 3 else rng.choice("eE") + es + ds
            text = sign + ip + frac + exp
        v = _pf(text)
        if _scope(v) is None:
            return v, text
    return _pf("0.5"), "0.5"



def nonnormal_literal(rng, E, form):
    """A numeral whose WRITTEN exponent is E (-340..340) while its value stays inside the normal double range:
    form 'int'  : k integer digits (1..40), optional short fraction  -> value ~ 10^(E+k-1)
    form 'frac' : 0.<z zeros><digits>  (z 0..40)                      -> value ~ 10^(E-z-1)
    Returns text or None if no such numeral exists for this E/form."""
    for _ in range(40):
        if form == "int":
            lo, hi = max(1, -307 - E + 1), min(40, 307 - E + 1)     # k-1+E within [-307, 307]
            if lo > hi:
                return None
            k = rng.randint(lo, hi) if rng.random() < 0.7 else rng.choice((lo, hi))
            mant = rng.choice("123456789") + "".join(rng.choice("0123456789") for _ in range(k - 1))
            if rng.random() < 0.4:
                mant += "." + "".join(rng.choice("0123456789") for _ in range(rng.randint(1, 5)))
        else:
            lo, hi = max(0, E - 1 - 307), min(40, E - 1 + 307)       # E-z-1 within [-307, 307]
            if lo > hi:
                return None
            z = rng.randint(lo, hi) if rng.random() < 0.7 else rng.choice((lo, hi))
            mant = "0." + "0" * z + rng.choice("123456789") + "".join(rng.choice("0123456789") for _ in range(rng.randint(0, 7)))
        ds = str(abs(E))
        if rng.random() < 0.25:
            ds = "0" * rng.randint(1, 4) + ds                         # E+0007 style
        sign = "-" if E < 0 else rng.choice(("", "+"))
        text = ("-" if rng.random() < 0.25 else "") + mant + rng.choice("eE") + sign + ds
        if _scope(_pf(text)) is None:
            return text
    return None


def nonnormal_docs(rng, step=1, offset=0):
    """Lists of numerals covering every written exponent -340..340 in both non-normalised forms."""
    lits = []
    for E in range(-340 + offset, 341, step):
        for form in ("int", "frac"):
            t = nonnormal_literal(rng, E, form)
            if t:
                lits.append(t)
    docs = []
    for i in range(0, len(lits), 16):
        chunk = lits[i:i + 16]
        toks, val = [("[", "[")], []
        for t in chunk:
            if val:
                toks.append((",", ","))
            toks.append(("float", t))
            val.append(_pf(t))
        toks.append(("]", "]"))
        docs.append(Doc(toks, val))
    return docs


LONG_RUN_NUMS = ["0." + "1234567890" * 2 + "5", "0." + "9" * 25, "0." + "0" * 19 + "1", "0." + "0" * 20 + "123", "1." + "0" * 30 + "1",
                 "3." + "14159265358979323846264338327950288419", "0." + "0" * 38 + "7", "1" + "0" * 19 + ".5", "9" * 20 + ".0",
                 "1" + "0" * 39 + ".0", "12345678901234567890123456789012345678.9", "0." + "5" * 40, "2." + "7" * 33 + "e-5",
                 "0." + "0" * 30 + "4e+35", "1" + "2" * 34 + "e-30", "123456789e-315", "0.001e310", "0.0000000001e318",
                 "1" + "0" * 24 + "e-330", "0." + "0" * 25 + "1e+333", "100e-309", "0.01e+310", "17976931348623157e292",
                 "0.000022250738585072014e-303"]

def gen_string(rng, maxlen=10):
    n = 0 if rng.random() < 0.1 else (rng.randint(1, maxlen) if rng.random() < 0.9 else rng.randint(maxlen, 40))
    val, text = [], ['"']
    for _ in range(n):
        c = rng.random()
        if c < 0.55:
            ch = chr(rng.randint(0x20, 0x7E))
            if ch in '"\\':
                ch = "a"
            val.append(ch)
            text.append(ch)
        elif c < 0.70:
            e = rng.choice(list(SIMPLE_ESC))
            val.append(SIMPLE_ESC[e])
            text.append("\\" + e)
        elif c < 0.88:
            cp = rng.choice((0, 0x1F, 0x20, 0x22, 0x5C, 0x7F, 0x80, 0xE9, 0xFF)) if rng.random() < 0.4 else rng.randint(0, 0xFF)
            h = "%04x" % cp
            if rng.random() < 0.5:
                h = h.upper()
            val.append(chr(cp))
            text.append("\\u" + h)
        else:
            cp = rng.randint(0x7F, 0xFF)
            val.append(chr(cp))
            text.append(chr(cp))
    text.append('"')
    return "".join(val), "".join(text)


def gen_value(rng, depth, maxdepth, budget):
    """Returns (value, tokens)."""
    budget[0] -= 1
    if depth < maxdepth and budget[0] > 0 and rng.random() < (0.75 if depth == 0 else 0.4):
        if rng.random() < 0.5:
            toks, val = [("[", "[")], []
            n = 0 if rng.random() < 0.15 else rng.randint(1, 5)
            for i in range(n):
                if budget[0] <= 0:
                    break
                v, t = gen_value(rng, depth + 1, maxdepth, budget)
                if val:
                    toks.append((",", ","))
                toks += t
                val.append(v)
            toks.append(("]", "]"))
            return val, toks
        toks, val = [("{", "{")], {}
        n = 0 if rng.random() < 0.15 else rng.randint(1, 5)
        for i in range(n):
            if budget[0] <= 0:
                break
            k, kt = gen_string(rng, 6)
            if k in val:
                continue
            v, t = gen_value(rng, depth + 1, maxdepth, budget)
            if val:
                toks.append((",", ","))
            toks.append(("key", kt))
            toks.append((":", ":"))
            toks += t
            val[k] = v
        toks.append(("}", "}"))
        return val, toks
    c = rng.random()
    if c < 0.08:
        return None, [("null", "null")]
    if c < 0.14:
        return True, [("true", "true")]
    if c < 0.20:
        return False, [("false", "false")]
    if c < 0.45:
        v, t = gen_int(rng)
        return v, [("int", t)]
    if c < 0.75:
        v, t = gen_float(rng)
        return v, [("float", t)]
    v, t = gen_string(rng)
    return v, [("str", t)]


def add_ws(doc, rng, style):
    """style 0 compact; 1 ', ' and ': '; 2 random runs everywhere; 3 pretty newlines."""
    n = len(doc.toks)
    doc.ws = [""] * (n + 1)
    if style == 0:
        return doc
    for g in range(n + 1):
        prev = doc.toks[g - 1][0] if g > 0 else None
        if style == 1:
            if prev in (",", ":"):
                doc.ws[g] = " "
        elif style == 2:
            if rng.random() < 0.5:
                doc.ws[g] = "".join(rng.choice(WS) for _ in range(rng.randint(1, 3)))
        else:
            if prev in ("[", "{", ","):
                doc.ws[g] = "\n" + "  " * rng.randint(0, 3)
            elif prev == ":":
                doc.ws[g] = " "
            elif g < n and doc.toks[g][0] in ("]", "}"):
                doc.ws[g] = "\r\n" if rng.random() < 0.3 else "\n"
    return doc


def random_doc(rng):
    budget = [rng.choice((3, 6, 10, 20, 40))]
    v, t = gen_value(rng, 0, rng.randint(1, 6), budget)
    return add_ws(Doc(t, v), rng, rng.choice((0, 0, 1, 2, 2, 3)))


def wrap_variants(tok, val):
    """a scalar as a document on its own, inside a list, inside an object"""
    yield Doc([tok], val)
    yield Doc([("[", "["), tok, ("]", "]")], [val])
    yield Doc([("[", "["), ("int", "1"), (",", ","), tok, (",", ","), ("int", "2"), ("]", "]")], [_pi("1"), val, _pi("2")])
    yield Doc([("{", "{"), ("key", '"k"'), (":", ":"), tok, ("}", "}")], {"k": val})


def atomic_docs():
    out = []
    for t in SPECIAL_NUMS:
        m = _NUM_RE.match(t)
        isint = not m.group(3) and not m.group(4)
        v = _pi(t) if isint else _pf(t)
        if _scope(v) is None:
            out += list(wrap_variants(("int" if isint else "float", t), v))
    for t in LONG_RUN_NUMS:
        v = _pf(t)
        if _scope(v) is None:
            out += list(wrap_variants(("float", t), v))[:2]
    for i in BOUNDARY_INTS:
        out += list(wrap_variants(("int", str(i)), _pi(str(i))))[:2]
    for lit, v in (("null", None), ("true", True), ("false", False)):
        out += list(wrap_variants((lit, lit), v))
    strs = [("", '""'), ("a", '"a"')]
    strs.append(("".join(chr(i) for i in range(256)), '"' + "".join("\\u%04x" % i for i in range(256)) + '"'))
    strs.append(("".join(chr(i) for i in range(256)), '"' + "".join("\\u%04X" % i for i in range(256)) + '"'))
    strs.append(("".join(chr(i) for i in range(0x7F, 256)), '"' + "".join(chr(i) for i in range(0x7F, 256)) + '"'))
    strs.append(("".join(SIMPLE_ESC[e] for e in SIMPLE_ESC), '"' + "".join("\\" + e for e in SIMPLE_ESC) + '"'))
    strs.append(("// not a comment", '"// not a comment"'))
    strs.append(("[1,2,]{}0x1F n t f", '"[1,2,]{}0x1F n t f"'))
    for e in SIMPLE_ESC:
        strs.append((SIMPLE_ESC[e], '"\\' + e + '"'))
    for v, t in strs:
        out += list(wrap_variants(("str", t), v))[:2]
        out.append(Doc([("{", "{"), ("key", t), (":", ":"), ("int", "1"), ("}", "}")], {v: _pi("1")}))
    # empty containers at every position
    L, R, LC, RC, CM = ("[", "["), ("]", "]"), ("{", "{"), ("}", "}"), (",", ",")
    one = ("int", "1")
    k = lambda s: ("key", '"%s"' % s)  # noqa: E731
    co = (":", ":")
    I1 = _pi("1")
    for toks, v in (([L, R], []), ([LC, RC], {}), ([L, L, R, R], [[]]), ([L, LC, RC, R], [{}]),
                    ([LC, k("a"), co, L, R, RC], {"a": []}), ([LC, k("a"), co, LC, RC, RC], {"a": {}}),
                    ([L, L, R, CM, LC, RC, R], [[], {}]), ([L, one, CM, L, R, R], [I1, []]), ([L, L, R, CM, one, R], [[], I1]),
                    ([LC, k("a"), co, L, R, CM, k("b"), co, LC, RC, RC], {"a": [], "b": {}}),
                    ([L, LC, RC, CM, LC, RC, CM, L, R, R], [{}, {}, []])):
        out.append(Doc(list(toks), v))
        d = Doc(list(toks), v)
        d.ws = [" "] * (len(toks) + 1)
        out.append(d)
        d = Doc(list(toks), v)
        d.ws = ["\n\t"] + ["\r\n "] * (len(toks) - 1) + ["\n"]
        out.append(d)
    return out


def deep_docs():
    out = []
    for n in (50, 200, 499, 500):
        toks = [("[", "[")] * n + [("]", "]")] * n
        v = []
        for _ in range(n - 1):
            v = [v]
        out.append(Doc(toks, v))
        toks = []
        for _ in range(n - 1):
            toks += [("{", "{"), ("key", '"a"'), (":", ":")]
        toks += [("{", "{"), ("}", "}")] + [("}", "}")] * (n - 1)
        v = {}
        for _ in range(n - 1):
            v = {"a": v}
        out.append(Doc(toks, v))
        toks, close = [], []
        for i in range(n - 1):
            if i & 1:
                toks += [("{", "{"), ("key", '"k"'), (":", ":")]
                close.append(("}", "}"))
            else:
                toks.append(("[", "["))
                close.append(("]", "]"))
        toks += [("float", "5e-1")] + close[::-1]
        v = _pf("5e-1")
        for i in range(n - 2, -1, -1):
            v = {"k": v} if i & 1 else [v]
        out.append(Doc(toks, v))
    return out


# ---- documented extensions: one edit each ----

def ext_variants(doc, rng):
    """Yields (kind, Doc) with exactly one extension applied; default-mode value = doc.value."""
    toks = doc.toks
    idx = [i for i, (k, _) in enumerate(toks) if k == "]" and toks[i - 1][0] != "["]
    if idx:
        i = rng.choice(idx)
        d = doc.copy()
        d.toks.insert(i, (",", ","))
        d.ws.insert(i, rng.choice(("", "", " ", "\n")))
        yield "trailing-comma-list", d
    idx = [i for i, (k, _) in enumerate(toks) if k == "}" and toks[i - 1][0] != "{"]
    if idx:
        i = rng.choice(idx)
        d = doc.copy()
        d.toks.insert(i, (",", ","))
        d.ws.insert(i, rng.choice(("", "", " ", "\n")))
        yield "trailing-comma-dict", d
    idx = [i for i, (k, _) in enumerate(toks) if k == "int"]
    if idx:
        i = rng.choice(idx)
        t = toks[i][1]
        v = int(t)
        neg = t.startswith("-")
        digits = format(abs(v), rng.choice(("x", "X")))
        if rng.random() < 0.2:
            digits = "0" * rng.randint(1, 3) + digits
        d = doc.copy()
        d.toks[i] = ("hex", ("-" if neg else "") + "0x" + digits)
        yield "hex-int", d
    for lit in ("null", "true", "false"):
        idx = [i for i, (k, _) in enumerate(toks) if k == lit]
        if idx:
            i = rng.choice(idx)
            d = doc.copy()
            d.toks[i] = ("onechar", lit[0])
            yield "one-char-" + lit, d
    g = rng.randrange(len(toks) + 1)
    body = "".join(rng.choice(' abc"\\[]{},:0x1/ntf\x80\xff*') for _ in range(rng.randint(0, 12)))
    d = doc.copy()
    end = rng.choice(("\n", "\n", "\r", "\r\n", "\n  "))
    if g == len(toks) and rng.random() < 0.5:
        end = ""
    d.ws[g] = d.ws[g] + "//" + body + end
    yield ("comment-at-end" if g == len(toks) else "comment-at-start" if g == 0 else "comment-inside"), d


SUFFIXES = [",", "]", "}", ":", "z", '"', " z", "[1]", " null", "\x00", "\x80", ",1", "\n{}", "\t]"]
SOUP = ["{", "}", "[", "]", ",", ":", '"a"', '""', '"k":', "1", "-1", "0", "0x1F", "-0x", "0x", "1.5", "1e5", "5e-1", "1E+2", "-", "+",
        "n", "t", "f", "null", "true", "false", "nul", "//", "// c\n", "/", "\\", '"', "\\u00e9", '"\\u12', '"\\x4', '"\\x41"',
        '"\\u0041"', '"\\u0141"', '"\\ud83d\\ude00"', " ", "\n", "\x00", "\x80", "\xff", "1e", "1e+", "1.", "01", ".5", "e5", "--1",
        "[]", "{}", "[,]", "{,}", "[1,]", '{"a":1,}', '{"a":1}', "[1,2]", "1e400", "1e-400", "99999999999999999999", "{1:2}",
        "{n:1}", "{[]:1}", '{"a"}', '{"a":}', "[1 2]", "\t", "1e-310", "5e-324", "4.9406564584124654e-324", "123456789e-325", "0.001e-320",
        "2.2250738585072011e-308", "1e-400", "-1e+309", "0.1e310", "[1e-320,2E-315]"]


# ------------------------------------------------------------------------------------------------
# stage 1: case generation (one worker per harness shard)

def _big_stack(fn, *a):
    """Run fn in a thread with a large stack (documents nest 500 deep)."""
    box = {}

    def run():
        try:
            box["r"] = fn(*a)
        except BaseException as ex:  # noqa
            import traceback
            box["e"] = "%r\n%s" % (ex, traceback.format_exc())
    sys.setrecursionlimit(50000)
    threading.stack_size(512 * 1024 * 1024)
    t = threading.Thread(target=run)
    t.start()
    t.join()
    if "e" in box:
        return {"error": box["e"]}
    return box["r"]


def positions(n, quick=False):
    """Edit positions used for a base document of n bytes: all of them up to 120 bytes, else an even sample of
    about 120 (quick tier: about 30 for documents over 300 bytes - the long number lists, long strings and deep
    documents, whose parse costs 0.1-1 ms under ASan)."""
    if n <= 120:
        return 1, 0
    want = 30 if (quick and n > 300) else 120
    return (n + want - 1) // want, 0


def mutants_at(b, pos):
    """Same enumeration as the 'A' case of harness/c05.cc: (op, byte, bytes)."""
    yield "d", 0, b[:pos] + b[pos + 1:]
    yield "u", 0, b[:pos] + b[pos:pos + 1] + b[pos:]
    for a in ALPHABET:
        if b[pos] != a:
            yield "r", a, b[:pos] + bytes([a]) + b[pos + 1:]


def _flag(status):
    """Which non-base documents get their value judged: valid in-scope ones, and the unsupported-\\u ones (leniently)."""
    st, info = status
    if st == "valid":
        return True
    return st == "outscope" and info[0] == "codepoint>U+00FF" and info[1] is not None


def _gen_worker(args):
    return _big_stack(_gen_worker2, *args)


def _gen_worker2(workdir, tier, seed, k, nshards):
    rng = random.Random(seed * 1000003 + k * 7919 + 5)
    quick = tier == "quick"
    nrand = 40 if quick else 400
    nsoup = 1500 if quick else 40000
    # systematic part incl. one numeral per written exponent -340..340 and form (seeded digits; the quick tier
    # takes every exponent too - the lists are cheap)
    fixed = atomic_docs() + deep_docs() + nonnormal_docs(random.Random(seed * 7 + 3))
    docs = [d for i, d in enumerate(fixed) if i % nshards == k]
    nfixed = len(docs)
    for _ in range(nrand):
        docs.append(random_doc(rng))
    counts = {"bases": 0, "mutants_classified": 0, "mutants_valid": 0, "prefix_valid": 0, "ext": 0, "extent": 0, "soup": 0,
              "soup_valid": 0}
    os.makedirs(os.path.join(workdir, "c05.corpus"), exist_ok=True)
    n = 0
    with open(os.path.join(workdir, "c05.cases.%d.tsv" % k), "w") as f:
        def nid():
            nonlocal n
            n += 1
            return "%d.%d" % (k, n)
        for di, d in enumerate(docs):
            b = d.bytes()
            st, val = reference(b)
            if st != "valid" or val != d.value:
                return {"error": "[harness-error] generator self-check failed: %r -> %s %r (intended %r)" % (b[:200], st, val, d.value)}
            bid = "b%d.%d" % (k, di)
            counts["bases"] += 1
            f.write("B\t%s\t%s\n" % (bid, b.hex()))
            f.write("S\t%s\t%s\n" % (nid(), b.hex()))
            if len(b) <= 1000 and di % 2 == 0:
                with open(os.path.join(workdir, "c05.corpus", "%d_%d" % (k, di)), "wb") as cf:
                    cf.write(b)
            stride, off = positions(len(b), quick)
            f.write("A\t%s\t%d\t%d\n" % (bid, stride, off))
            for pos in range(off, len(b), stride):
                for op, byte, m in mutants_at(b, pos):
                    counts["mutants_classified"] += 1
                    if _flag(reference(m)):
                        counts["mutants_valid"] += 1
                        f.write("M\t%s\t%s\t%d\t%s\t%d\tV\n" % (nid(), bid, pos, op, byte))
                if _flag(reference(b[:pos])):
                    counts["prefix_valid"] += 1
                    f.write("P\t%s\t%s\t%d\tV\n" % (nid(), bid, pos))
            if len(b) > 1200:
                continue
            for kind, e in ext_variants(d, rng):
                eb = e.bytes()
                if reference(eb)[0] != "invalid":
                    return {"error": "[harness-error] extension document is valid standard JSON: %r" % eb[:200]}
                counts["ext"] += 1
                f.write("E\t%s\t%s\t%s\t%s\n" % (nid(), kind, eb.hex(), b.hex()))
            dd = d.copy()
            dd.ws[-1] = ""
            db = dd.bytes()
            for s in rng.sample(SUFFIXES, 2 if di >= nfixed else 1):
                sb = s.encode("latin-1")
                if reference(db + sb)[0] == "invalid":
                    counts["extent"] += 1
                    f.write("X\t%s\t%s\t%s\n" % (nid(), db.hex(), sb.hex()))
        for _ in range(nsoup):
            c = rng.random()
            if c < 0.6:
                t = "".join(rng.choice(SOUP) for _ in range(rng.randint(1, 10))).encode("latin-1")
            elif c < 0.8:
                t = bytes(rng.choice(ALPHABET) for _ in range(rng.randint(0, 20)))
            else:
                t = bytes(rng.randrange(256) for _ in range(rng.randint(0, 16)))
            counts["soup"] += 1
            fl = _flag(reference(t))
            counts["soup_valid"] += fl
            f.write("T\t%s\t%s\t%s\n" % (nid(), t.hex(), "V" if fl else "T"))
    return {"counts": counts}


def gen_stage(ctx, st):
    from vf import driver
    args = [(ctx["workdir"], ctx["tier"], ctx["seed"], k, NSHARDS) for k in range(NSHARDS)]
    res = driver.empty_result()
    with multiprocessing.Pool(min(NSHARDS, os.cpu_count() or 4)) as pool:
        for r in pool.imap_unordered(_gen_worker, args):
            if "error" in r:
                raise driver.Inconclusive("c05-gen: %s" % r["error"])
            for k2, v in r["counts"].items():
                res["counters"]["gen_" + k2] = res["counters"].get("gen_" + k2, 0) + v
    with open(os.path.join(ctx["workdir"], "c05.dict"), "w") as f:
        for t in ("null", "true", "false", "0x", "//", "\\\\u00", "\\\\x", "e+", "e-", "E", "\\\"", "[]", "{}", "\\\":", ",]", ",}"):
            f.write('"%s"\n' % t)
    res["extra"]["case_files"] = NSHARDS
    _fuzz_start(ctx)  # runs in the background while the harness stage executes the case files
    return res


# ------------------------------------------------------------------------------------------------
# stage 3: judge

def _cc(ch):
    if ch is None:
        return "eof"
    c = chr(ch)
    if c in '[]{},:"-':
        return c
    if c.isdigit():
        return "digit"
    if c in WS:
        return "ws"
    if c.isalpha() and ch < 0x80:
        return "letter"
    return "other"


def cause(exc, what, doc):
    if exc == "std::out_of_range":
        return "out_of_range"
    if exc != "phosg::JSON::parse_error":
        return exc
    slug = re.sub(r"[^a-z]+", "-", what.split(";")[0].lower()).strip("-")
    m = re.search(r"pos=(\d+)", what)
    if m:
        pos = int(m.group(1))
        return "%s@%s" % (slug, _cc(doc[pos] if pos < len(doc) else None))
    return slug


def _features(val, out, depth=1):
    if isinstance(val, (IntLit, FloatLit)):
        out.add("num:" + numclass(val.lit)[7:])
        m = _NUM_RE.match(val.lit)
        if m and m.group(4):
            if abs(int(m.group(6))) >= 310:
                out.add("num:written-exponent>=310:" + ("neg" if m.group(5) == "-" else "pos"))
            if len(m.group(6)) > len(m.group(6).lstrip("0")) and m.group(6).lstrip("0"):
                out.add("num:exponent-leading-zeros")
        if isinstance(val, FloatLit) and val == 0:
            out.add("num:float-zero:" + ("negative" if val.lit.startswith("-") else "positive"))
        if isinstance(val, IntLit) and val.lit == "-0":
            out.add("num:int-minus-zero")
        if m and len(m.group(2)) >= 20:
            out.add("num:integer-digits>=20")
        if m and m.group(3) and len(m.group(3)) > 20:
            out.add("num:fraction-digits>=20")
    elif isinstance(val, str):
        out.add("str:" + ("empty" if not val else "high" if any(ord(c) >= 0x80 for c in val) else "ctrl" if any(ord(c) < 0x20 for c in val) else "ascii"))
    elif isinstance(val, list):
        out.add("list:empty" if not val else "list")
        for x in val:
            _features(x, out, depth + 1)
    elif isinstance(val, dict):
        out.add("dict:empty" if not val else "dict")
        for x in val.values():
            _features(x, out, depth + 1)
    else:
        out.add("lit:%s" % json.dumps(val))


def _depth(val):
    d, stack = 0, [(val, 1)]
    while stack:
        v, n = stack.pop()
        if isinstance(v, list):
            d = max(d, n)
            stack += [(x, n + 1) for x in v]
        elif isinstance(v, dict):
            d = max(d, n)
            stack += [(x, n + 1) for x in v.values()]
    return d


def _judge_worker(args):
    return _big_stack(_judge_worker2, *args)


def _judge_worker2(workdir, k):
    res = {"evaluations": 0, "classes": {}, "violations": [], "violation_counts": {}, "samples": [], "counters": {}}

    def viol(key, what, case):
        n = res["violation_counts"].get(key, 0) + 1
        res["violation_counts"][key] = n
        if n <= 3:
            res["violations"].append({"key": key, "what": what, "case": case})

    def cls(kk):
        res["classes"][kk] = res["classes"].get(kk, 0) + 1

    obs = {}
    with open(os.path.join(workdir, "c05.obs.%d.tsv" % k), encoding="latin-1") as f:  # what() may hold raw input bytes
        for line in f:
            p = line.rstrip("\n").split("\t")
            if len(p) < 6:
                return {"error": "[harness-error] short observation line %r" % line[:200]}
            obs.setdefault(p[0], {})[int(p[1])] = (p[2].split(","), int(p[3]), p[4], p[5])
    bases = {}
    base_default_bad = {}
    judged = 0
    with open(os.path.join(workdir, "c05.cases.%d.tsv" % k), encoding="latin-1") as f:
        for line in f:
            p = line.rstrip("\n").split("\t")
            kind = p[0]
            if kind == "B":
                bases[p[1]] = bytes.fromhex(p[2])
                continue
            if kind == "A":
                continue
            cid = p[1]
            lenient = False
            if kind == "S":
                doc = bytes.fromhex(p[2])
            elif kind == "E":
                doc, base = bytes.fromhex(p[3]), bytes.fromhex(p[4])
            elif kind == "X":
                D, S = bytes.fromhex(p[2]), bytes.fromhex(p[3])
                doc = D + S
            elif kind == "T":
                if p[3] != "V":
                    continue
                doc = bytes.fromhex(p[2])
            elif kind == "M":
                b = bases[p[2]]
                pos, op, byte = int(p[3]), p[4], int(p[5])
                doc = b[:pos] + b[pos + 1:] if op == "d" else b[:pos] + b[pos:pos + 1] + b[pos:] if op == "u" else b[:pos] + bytes([byte]) + b[pos + 1:]
            elif kind == "P":
                doc = bases[p[2]][:int(p[3])]
            else:
                return {"error": "[harness-error] unknown case kind %r" % kind}
            o = obs.get(cid)
            if not o or 0 not in o or 1 not in o:
                return {"error": "[harness-error] no observation for case %s (%s)" % (cid, kind)}
            judged += 1
            case = "case %s kind=%s doc(hex)=%s doc=%r" % (cid, kind if kind != "E" else "E-" + p[2], doc.hex()[:600], doc[:200].decode("latin-1"))

            def tagval(col):
                try:
                    return json.loads(col)
                except Exception as ex:
                    raise RuntimeError("[harness-error] unreadable tagged value for case %s: %r" % (cid, ex))

            if kind == "S":
                base_default_bad[p[2]] = False
            if kind in ("S", "T", "M", "P"):
                st, ref = reference(doc)
                if st == "outscope":
                    lenient, ref = True, ref[1]
                elif st != "valid":
                    return {"error": "[harness-error] logged case %s is not valid for the reference" % cid}
                feats = set()
                if kind == "S":
                    _features(ref, feats)
                    for ft in feats:
                        cls("doc:" + ft)
                    dp = _depth(ref)
                    cls("doc:depth:%s" % (dp if dp in (0, 1, 2, 499, 500) else "3-49" if dp < 50 else "50-498"))
                for mode in (0, 1):
                    res["evaluations"] += 1
                    mn = "strict" if mode else "default"
                    sts, where, what, tagcol = o[mode]
                    if lenient:
                        # \u above U+00FF is documented as unsupported: rejecting is fine, a wrong value is not
                        if sts[2] == "ok":
                            r = compare(ref, tagval(tagcol), "$", True)
                            if r:
                                viol("conformance:value:" + r[0], "accepted a document with an unsupported \\u escape and mis-valued it (%s mode): %s" % (mn, r[1]), case)
                        cls("judge:unsupported-escape:%s:%s" % (mn, "accepted" if sts[2] == "ok" else "rejected"))
                        continue
                    if sts[2] != "ok":
                        viol("conformance:rejected:%s:%s" % (mn, cause(sts[2], what, doc)),
                             "standard-compliant document rejected in %s mode: %s: %s" % (mn, sts[2], what), case)
                        if kind == "S" and mode == 0:
                            base_default_bad[p[2]] = True
                        continue
                    r = compare(ref, tagval(tagcol))
                    if r:
                        viol("conformance:value:" + r[0], "value differs from CPython json.loads (%s mode): %s" % (mn, r[1]), case)
                        if kind == "S" and mode == 0:
                            base_default_bad[p[2]] = True
                        continue
                    if sts[0] == "ok":
                        want = len(doc.rstrip(WS.encode()))
                        if where != want:
                            viol("extent:reader-where:" + mn, "parse(StringReader&) left where()=%d, the value ends at %d (document length %d)" % (where, want, len(doc)), case)
                    cls("judge:%s:%s:ok" % (kind if kind == "S" else "V:" + kind, mn))
            elif kind == "E":
                ek = p[2]
                st, ref = reference(base)
                res["evaluations"] += 2
                sts, where, what, tagcol = o[0]
                if base_default_bad.get(p[4]):
                    # the unmodified base document is already reported under conformance:*; its extension
                    # variant inherits that failure and says nothing about the extension
                    res["counters"]["ext_default_skipped_base_failed"] = res["counters"].get("ext_default_skipped_base_failed", 0) + 1
                elif sts[2] != "ok":
                    viol("extension:%s:default-rejected" % ek, "default mode rejects a document whose only non-standard feature is the documented extension '%s': %s: %s" % (ek, sts[2], what), case)
                else:
                    r = compare(ref, tagval(tagcol))
                    if r:
                        viol("extension:%s:default-value" % ek, "default mode gives the extension document a value other than the documented meaning: %s" % r[1], case + " base=%r" % base[:200].decode("latin-1"))
                    else:
                        cls("judge:E:%s:default-ok" % ek)
                sts, where, what, tagcol = o[1]
                if sts[1] == "ok" or sts[2] == "ok":
                    viol("strictness:accepted:" + ek, "strict mode (disable_extensions=true) accepts a document using the extension '%s'" % ek, case)
                else:
                    cls("judge:E:%s:strict-rejected" % ek)
            elif kind == "X":
                st, ref = reference(D)
                sc = "ws+" + _cc(S.lstrip(WS.encode())[0]) if S[:1] in (b" ", b"\t", b"\n", b"\r") else _cc(S[0])
                for mode in (0, 1):
                    res["evaluations"] += 1
                    mn = "strict" if mode else "default"
                    sts, where, what, tagcol = o[mode]
                    if sts[1] == "ok" or sts[2] == "ok":
                        viol("trailing:accepted:%s:%s" % (mn, sc), "a string entry point accepts a value followed by non-whitespace", case)
                        continue
                    if sts[0] != "ok":
                        viol("conformance:rejected:%s:%s" % (mn, cause(sts[0], what, doc)), "parse(StringReader&) rejects a standard value followed by other data (%s mode): %s: %s" % (mn, sts[0], what), case)
                        continue
                    if not tagcol.startswith("R"):
                        return {"error": "[harness-error] X case %s without reader value" % cid}
                    r = compare(ref, tagval(tagcol[1:]))
                    if r:
                        viol("conformance:value:" + r[0], "value differs from CPython json.loads (%s mode, reader entry): %s" % (mn, r[1]), case)
                        continue
                    if where != len(D):
                        viol("extent:reader-where:" + mn, "parse(StringReader&) left where()=%d, the value ends at %d; following data %r" % (where, len(D), S), case)
                        continue
                    cls("judge:X:%s:%s" % (mn, sc))
    res["counters"]["judged_cases"] = judged
    if judged and not res["samples"]:
        res["samples"].append("shard %d: %d documents judged against json.loads in both modes" % (k, judged))
    return res


def judge_stage(ctx, st):
    from vf import driver
    merged = driver.empty_result()
    args = [(ctx["workdir"], k) for k in range(NSHARDS)]
    with multiprocessing.Pool(min(NSHARDS, os.cpu_count() or 4)) as pool:
        for r in pool.imap_unordered(_judge_worker, args):
            if "error" in r:
                raise driver.Inconclusive("c05-judge: %s" % r["error"])
            driver.merge(merged, r)
    return merged


# ------------------------------------------------------------------------------------------------
# stage 4: coverage-guided fuzzing with the same totality oracle

def _run_fuzz_job(a):
    exe, jobdir, runs, seed, env, timeout, dictf = a
    corpus = os.path.join(jobdir, "corpus")
    out = os.path.join(jobdir, "oracle.tsv")
    e = dict(env)
    e["C05_FUZZ_OUT"] = out
    cmd = [exe, "-runs=%d" % runs, "-seed=%d" % seed, "-max_len=1024", "-timeout=600", "-rss_limit_mb=4096",
           "-print_final_stats=1", "-dict=" + dictf, "-artifact_prefix=" + jobdir + "/", corpus]
    t0 = time.time()
    with open(os.path.join(jobdir, "log"), "wb") as lf:
        try:
            rc = subprocess.run(cmd, stdout=lf, stderr=subprocess.STDOUT, env=e, cwd=jobdir, timeout=timeout).returncode
        except subprocess.TimeoutExpired:
            rc = -9
    with open(os.path.join(jobdir, "log"), "rb") as lf:
        log = lf.read().decode(errors="replace")
    return {"rc": rc, "log": log, "jobdir": jobdir, "wall": time.time() - t0, "cmd": cmd}


_FUZZ = {}


def _fuzz_start(ctx):
    """Builds the libFuzzer target and starts the jobs in the background.  Called at the end of the gen stage so
    that the fuzzing overlaps the harness stage (the jobs only need the seed corpus); collected by fuzz_stage."""
    from vf import build, driver
    quick = ctx["tier"] == "quick"
    exe = build.build_harness("c05_fuzz", "fuzz", extra_link=["-fsanitize=fuzzer"])
    jobs = 4 if quick else 16
    runs = 50000 if quick else 500000
    wd = ctx["workdir"]
    seeds = sorted(glob.glob(os.path.join(wd, "c05.corpus", "*")))
    if not seeds:
        raise driver.Inconclusive("c05-fuzz: no seed corpus (gen stage did not run?)")
    env = dict(os.environ)
    env.update(driver.SAN_ENV)
    args = []
    for j in range(jobs):
        jd = os.path.join(wd, "c05.fuzz.%d" % j)
        shutil.rmtree(jd, ignore_errors=True)
        os.makedirs(os.path.join(jd, "corpus"))
        for i, s in enumerate(seeds):
            if i % jobs == j or i % 7 == 0:
                shutil.copy(s, os.path.join(jd, "corpus", os.path.basename(s)))
        args.append((exe, jd, runs, ctx["seed"] * 100 + j + 1, env, 3600 if quick else 21600, os.path.join(wd, "c05.dict")))
    pool = multiprocessing.pool.ThreadPool(jobs)
    handle = {"pool": pool, "async": pool.map_async(_run_fuzz_job, args), "jobs": jobs, "runs": runs, "seeds": seeds,
              "exe": exe, "env": env}
    _FUZZ[wd] = handle
    return handle


def fuzz_stage(ctx, st):
    from vf import driver
    h = _FUZZ.pop(ctx["workdir"], None) or _fuzz_start(ctx)
    _FUZZ.pop(ctx["workdir"], None)
    outs = h["async"].get()
    h["pool"].close()
    jobs, runs, seeds, exe, env = h["jobs"], h["runs"], h["seeds"], h["exe"], h["env"]
    res = driver.empty_result()
    for j, o in enumerate(outs):
        m = re.search(r"stat::number_of_executed_units:\s*(\d+)", o["log"])
        execs = int(m.group(1)) if m else 0
        res["evaluations"] += execs
        res["counters"]["fuzz_executed_units"] = res["counters"].get("fuzz_executed_units", 0) + execs
        m = re.search(r"cov: (\d+) ft: (\d+)(?!.*cov: \d+ ft:)", o["log"], re.S)
        if m:
            res["counters"]["fuzz_cov_edges_job%d" % j] = int(m.group(1))
        meta = {"stage": "c05-fuzz", "shard": None, "cmd": o["cmd"]}
        op = os.path.join(o["jobdir"], "oracle.tsv")
        if os.path.exists(op):
            with open(op, encoding="latin-1") as f:  # exception messages may quote raw input bytes
                for line in f:
                    p = line.rstrip("\n").split("\t")
                    if len(p) < 3:
                        continue
                    doc = bytes.fromhex(p[1])
                    res["violation_counts"][p[0]] = res["violation_counts"].get(p[0], 0) + 1
                    if res["violation_counts"][p[0]] <= 3:
                        res["violations"].append({"key": p[0], "what": "[libFuzzer] " + p[2], "meta": meta,
                                                  "case": "fuzz input (hex)=%s input=%r" % (p[1][:600], doc[:200].decode("latin-1"))})
        if o["rc"] != 0:
            arts = [a for a in glob.glob(os.path.join(o["jobdir"], "*-*")) if os.path.basename(a).split("-")[0] in ("crash", "timeout", "oom", "leak")]
            art = arts[0] if arts else None
            data = open(art, "rb").read() if art else b""
            case = "fuzz artifact %s (hex)=%s input=%r" % (os.path.basename(art) if art else "(none)", data.hex()[:800], data[:200].decode("latin-1"))
            fatal, ub = driver.parse_sanitizer_log(o["log"])
            for k2, v in ub.items():
                res["ub_observations"][k2] = res["ub_observations"].get(k2, 0) + v
            if art and os.path.basename(art).startswith("timeout"):
                # a hang is re-run once before it is reported
                try:
                    subprocess.run([exe, art], env=env, timeout=1800, stdout=subprocess.DEVNULL, stderr=subprocess.DEVNULL)
                    res["counters"]["fuzz_timeout_not_reproduced"] = res["counters"].get("fuzz_timeout_not_reproduced", 0) + 1
                    continue
                except subprocess.TimeoutExpired:
                    fatal = [("totality:hang", "parse did not finish within 1800 s on a <=1 KiB input (after a 600 s libFuzzer timeout)")]
            if not fatal:
                if o["rc"] == -9:
                    raise driver.Inconclusive("c05-fuzz: job %d hit the watchdog\n%s" % (j, o["log"][-2000:]))
                if "libFuzzer" in o["log"] and ("deadly signal" in o["log"] or "ERROR" in o["log"]):
                    fatal = [("crash:libfuzzer", "libFuzzer reported a crash")]
                else:
                    raise driver.Inconclusive("c05-fuzz: job %d failed rc=%d\n%s" % (j, o["rc"], o["log"][-3000:]))
            for key, what in fatal:
                res["violation_counts"][key] = res["violation_counts"].get(key, 0) + 1
                res["violations"].append({"key": key, "what": "[libFuzzer] " + what, "case": case, "meta": meta,
                                          "stderr_tail": o["log"][-3000:]})
        else:
            _, ub = driver.parse_sanitizer_log(o["log"])
            for k2, v in ub.items():
                res["ub_observations"][k2] = res["ub_observations"].get(k2, 0) + v
    res["classes"]["fuzz:jobs"] = jobs
    if res["evaluations"]:
        res["classes"]["fuzz:runs"] = res["evaluations"]
    res["extra"]["fuzz_jobs"] = jobs
    res["extra"]["fuzz_runs_per_job"] = runs
    res["extra"]["fuzz_max_job_wall_s"] = round(max(o["wall"] for o in outs), 1)
    res["samples"].append("libFuzzer: %d jobs x -runs=%d -max_len=1024 seeded with %d grammar documents, same totality oracle" % (jobs, runs, len(seeds)))
    return res
