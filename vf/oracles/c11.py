"""C11 oracle: workload generator and judge for base64 / rot13 / escapers (netloc is a pure round-trip
law and is compared inside the harness).

stage(ctx, st):  1. writes one case file per shard (inputs only),
                 2. runs harness/c11.cc (real phosg code, ASan+UBSan) over them through the driver,
                 3. reads the observation logs and judges every observed result with independent
                    implementations: base64 (both alphabets), the decode-strictness predicate
                    `wellformed`, codecs rot_13-equivalent table, urllib.parse.unquote_to_bytes, and a
                    small backslash unescaper.

stage_hist(ctx, st): prior-history stage: a mini-workload of every function (see gen_hist_records) is executed on a fresh
thread right after each entry of the shared catalogue of earlier unrelated uses of phosg's helpers (harness/vf_history.hh)
and judged here exactly like the main stage; keys <function>:prior-history:<prior family>:<law>.

stage_mt(ctx, st): concurrency stage (st["variant"] = "asan" | "tsan"): small per-process record sets; the harness logs a
single-threaded pass (judged here exactly like the main stage) and then repeats the records from 8 threads at once,
requiring byte-identical results (compared in the harness against the judged single-threaded reference).

File formats: see harness/c11.cc.
"""
import base64
import itertools
import os
import random
import re
import struct
import time
import urllib.parse
from concurrent.futures import ProcessPoolExecutor

NSHARDS = 16
ENC, DEC, ROT, URL, CTRL, QUOTES, DECENUM, NETLOC, SWEEP, NETHOSTS, NETENUM, TRIAL = 1, 2, 3, 4, 5, 6, 7, 8, 9, 10, 11, 12
PRIOR = 13                          # prior-history stage: "the records that follow ran on a fresh thread after this prior"
F_EARLY, F_ALIGN = 0x40, 0x20      # flag bits (low nibble = alphabet / mode)

STD = frozenset(b"ABCDEFGHIJKLMNOPQRSTUVWXYZabcdefghijklmnopqrstuvwxyz0123456789+/")
URLSAFE = frozenset(b"ABCDEFGHIJKLMNOPQRSTUVWXYZabcdefghijklmnopqrstuvwxyz0123456789-_")
PAD = 0x3D


def alpha_set(flag):
    return URLSAFE if flag == 1 else STD


def alpha_name(flag):
    return "urlsafe" if flag == 1 else "std"


# ------------------------------------------------------------------------------------------------
# The strictness predicate (property statement, not a decoder): a string may be accepted only if its
# length is a multiple of four, every character is in the alphabet or '=', and the '=' characters are
# exactly the last one or the last two positions.

def wellformed_spelled_out(s, alpha):
    n = len(s)
    if n % 4:
        return False
    npad = 0
    for i, ch in enumerate(s):
        if ch == PAD:
            npad += 1
            if i < n - 2:
                return False            # padding somewhere other than the last two positions
        elif ch not in alpha:
            return False                # character outside the alphabet
        elif npad:
            return False                # data after padding ("xx=y"): padding is not the last position(s)
    return True


# The same predicate as one regular expression per alphabet (this is what the judge evaluates, ~5x faster;
# self_test() proves the two agree on every string of length <= 5 over a 7-symbol set and on the fixed examples).
_WF_RE = {id(STD): re.compile(rb"[A-Za-z0-9+/]*={0,2}\Z"), id(URLSAFE): re.compile(rb"[A-Za-z0-9\-_]*={0,2}\Z")}


def wellformed(s, alpha):
    return len(s) % 4 == 0 and _WF_RE[id(alpha)].match(s) is not None


def why_malformed(s, alpha):
    """Stable witness class for a malformed string (first reason in reading order of the statement)."""
    n = len(s)
    if n % 4:
        return "length%%4=%d" % (n % 4)
    tail = 2 if s[-2:] == b"==" else 1 if s[-1:] == b"=" else 0
    for i, ch in enumerate(s):
        if ch != PAD and ch not in alpha:
            grp = "final" if i >= n - 4 else "inner"
            return "non-alphabet-char:pos%d-of-%s-group:%d-pad" % (i % 4, grp, tail)
    for i, ch in enumerate(s):
        if ch == PAD and i < n - 2:
            return "padding-misplaced:%s-group" % ("final" if i >= n - 4 else "inner")
    return "padding-then-data"


def ref_decode(s, flag):
    return base64.urlsafe_b64decode(s) if flag == 1 else base64.b64decode(s)


def ref_encode(x, flag):
    return base64.urlsafe_b64encode(x) if flag == 1 else base64.b64encode(x)


# rot13 reference: rotate by 13 inside each ASCII letter case, everything else fixed
ROT_TABLE = bytes(
    (ord("a") + (c - ord("a") + 13) % 26) if ord("a") <= c <= ord("z") else
    (ord("A") + (c - ord("A") + 13) % 26) if ord("A") <= c <= ord("Z") else c
    for c in range(256))

# permitted output grammars
URL_OK = {0: re.compile(rb"(?:[A-Za-z0-9\-_.~=&/]|%[0-9A-Fa-f]{2})*\Z"),
          1: re.compile(rb"(?:[A-Za-z0-9\-_.~=&]|%[0-9A-Fa-f]{2})*\Z")}
_CTRL_ESC = rb"\\[\"'\\trnfbav]|\\x[0-9A-Fa-f]{2}"
CTRL_OK = {1: re.compile(rb"(?:[\x20-\x21\x23-\x26\x28-\x5b\x5d-\x7e]|" + _CTRL_ESC + rb")*\Z"),
           0: re.compile(rb"(?:[\x20-\x21\x23-\x26\x28-\x5b\x5d-\x7e\x80-\xff]|" + _CTRL_ESC + rb")*\Z")}
_UNESC_RE = re.compile(rb"\\(x[0-9A-Fa-f]{2}|.)", re.S)
_UNESC_MAP = {b'"': b'"', b"'": b"'", b"\\": b"\\", b"t": b"\t", b"r": b"\r", b"n": b"\n", b"f": b"\f", b"b": b"\b",
              b"a": b"\a", b"v": b"\v"}
RAW_QUOTE = re.compile(rb'(?<!\\)"')
NON_PRINTABLE = re.compile(rb"[^\x20-\x7e]")


_HAS_LETTER = re.compile(rb"[A-Za-z]")


def _sizeclass(n):
    return "1K-4K" if n < 4096 else "4K-16K" if n < 16384 else "16K-64K" if n < 65536 else "64K-1M" if n < (1 << 20) else ">=1MiB"


def unescape_controls(s):
    def rep(m):
        g = m.group(1)
        if len(g) == 3:
            return bytes([int(g[1:], 16)])
        return _UNESC_MAP.get(g, b"\\" + g)   # unknown escape stays as is -> round trip fails visibly
    return _UNESC_RE.sub(rep, s)


# ------------------------------------------------------------------------------------------------
# workload

S32 = [0x00, 0x01, 0x02, 0x03, 0x04, 0x0F, 0x10, 0x3E, 0x3F, 0x40, 0x41, 0x7E, 0x7F, 0x80, 0x81, 0xBF,
       0xC0, 0xF0, 0xFB, 0xFC, 0xFD, 0xFE, 0xFF, 0x55, 0xAA, 0x33, 0xCC, 0x69, 0x96, 0x0A, 0x3D, 0x2B]
SYMS4 = bytes([0x41, 0x51, 0x2F, 0x2B, 0x2D, 0x5F, 0x3D, 0x21, 0x00, 0x80, 0xFF])   # A Q / + - _ = ! 00 80 FF
SYMS8_Q = bytes([0x41, 0x51, 0x3D, 0x21, 0x2F, 0x2D])                               # A Q = ! / -
SYMS8_T = SYMS8_Q + b"\xff"
SYMS_SHORT = bytes([0x41, 0x51, 0x3D, 0x21])
CORRUPT = [0x41, 0x51, 0x7A, 0x30, 0x39, 0x2B, 0x2F, 0x2D, 0x5F, 0x3D, 0x21, 0x20, 0x0A, 0x2E, 0x7E, 0x00, 0x7F, 0x80,
           0xC3, 0xFF]                                                               # 20 replacement characters
ESC_SPECIAL = b"%\\\"'/ \t\n\r\x7f\x80\xff\x00\x1f\x20\x7e+&=~.-_xX09AFaf?#:@\x0b\x0c\x07\x08\xc3\xa9"
_ALL_ESCAPED = bytes(c for c in range(256) if (c < 0x20 and c not in (7, 8, 9, 10, 11, 12, 13)) or c >= 0x7F)
HOSTS = [b"a", b"h" * 255, b"example.com", b"my-host.sub-domain.example.org", b"h\xc3\xb6st.\xff\x80.example",
         b"1.2.3.4", b"-", b"[", b"host 80", b"8080"]


def _rec(op, flag, payload):
    return struct.pack("<BBI", op, flag, len(payload)) + payload


def _decenum(flag, syms, L, prefix):
    return _rec(DECENUM, flag, bytes([len(syms)]) + syms + bytes([L, len(prefix)]) + prefix)


def _rand_bytes(r, n, style):
    if style == 0:
        return r.randbytes(n)
    if style == 1:   # sextets 62/63 and 0 are frequent: bytes F8..FF, 00, 3E/3F/BF
        return bytes(r.choice((0xFB, 0xFF, 0xFE, 0xEF, 0xBF, 0xF8, 0x00, 0x3F, 0x3E, 0xFC)) for _ in range(n))
    return bytes(r.choice(ESC_SPECIAL) if r.random() < 0.7 else r.getrandbits(8) for _ in range(n))


def ladder_sizes(tier):
    """Sizes around every power of two and every 3*2^k up to 1 MiB (+-2; above 64 KiB only +-1 in the quick tier)."""
    quick = tier == "quick"
    sizes = set()
    for k in range(3, 21):
        w = 1 if (quick and k > 16) else 2
        sizes.update(2 ** k + d for d in range(-w, w + 1))
    for k in range(2, 19):
        w = 1 if (quick and 3 * 2 ** k > 65536) else 2
        sizes.update(3 * 2 ** k + d for d in range(-w, w + 1))
    sizes.update((12286, 12290, (1 << 20) + 1))
    return sorted(sizes)


def _ladder_bytes(r, n, style):
    """style: uniform | sextet (base64 62/63-heavy) | verbatim (nothing to escape) | escaped (every byte needs \\xHH / %HH) |
    mixed (special-heavy) | sparse (2% special characters)"""
    if style == "uniform":
        return r.randbytes(n)
    if style == "sextet":
        return bytes(r.choices((0xFB, 0xFF, 0xFE, 0xEF, 0xBF, 0xF8, 0x00, 0x3F, 0x3E, 0xFC), k=n))
    if style == "verbatim":
        return bytes(r.choices(b"abcdefghijklmnopqrstuvwxyzABCDEFGHIJKLMNOPQRSTUVWXYZ0123456789", k=n))
    if style == "escaped":
        return bytes(r.choices(_ALL_ESCAPED, k=n))
    if style == "mixed":
        return bytes(r.choices(ESC_SPECIAL + b"abcXYZ019", k=n))
    plain = r.choices(b"abcdefghijklmnopqrstuvwxyzABCDEFGHIJKLMNOPQRSTUVWXYZ0123456789", k=n)
    for _ in range(n // 50):
        plain[r.randrange(n)] = r.choice(ESC_SPECIAL)
    return bytes(plain)


def gen_ladder_records(tier, seed, shard, nshards):
    """Length ladder for every encoder / decoder / escaper; record i of the whole ladder goes to shard i % nshards."""
    quick = tier == "quick"
    i = 0
    for n in ladder_sizes(tier):
        big = n > 65538
        plans = []
        for flag in (0, 1):
            for style in (("uniform",) if big and quick else ("uniform", "sextet")):
                plans.append((ENC, flag, n, style))
        plans.append((ROT, 0, n, "mixed" if not big else "sparse"))
        if not big:
            plans.append((ROT, 0, n, "uniform"))
        for op, flag in ((URL, 0), (URL, 1), (CTRL, 0), (CTRL, 1), (QUOTES, 0)):
            styles = ("sparse",) if big and quick else ("sparse", "mixed") if big else ("verbatim", "escaped", "mixed")
            for style in styles:
                plans.append((op, flag, n, style))
        # decoder ladder: ENCODED lengths next to n (multiples of 4), all three padding shapes, plus corrupted copies
        for L in sorted({((n + 3) // 4) * 4} if big else {(n // 4) * 4, ((n + 3) // 4) * 4}):
            if L == 0:
                continue
            for flag in (0, 1):
                plans.append((DEC, flag, L, "valid"))
                plans.append((DEC, flag, L, "corrupt"))
        for op, flag, size, style in plans:
            mine = i % nshards == shard
            i += 1
            if not mine:
                continue
            r = random.Random("c11-ladder-%s-%d-%d-%d-%d-%s" % (tier, seed, op, flag, size, style))
            if op == DEC:
                raw = r.randbytes(size // 4 * 3 - r.randrange(3))
                enc = ref_encode(raw, flag)
                assert len(enc) == size
                if style == "corrupt":
                    # one character outside this alphabet, at a position next to a 4 KiB / 16 KiB boundary, the ends or random
                    cands = [0, size - 1, size // 2, r.randrange(size)] + [b - 1 for b in (4096, 16384, 16385, 65536) if b < size]
                    pos = r.choice(cands)
                    bad = r.choice(b"!\x00\xff \n" + (b"+/" if flag == 1 else b"-_"))
                    enc = enc[:pos] + bytes([bad]) + enc[pos + 1:]
                yield _rec(DEC, flag, enc)
            else:
                yield _rec(op, flag, _ladder_bytes(r, size, style))


# fixed inputs of the early-call probe (must equal the constants in harness/c11.cc; the harness refuses to run otherwise)
EARLY_TEXT = b"early call probe: \"quoted\" 'single' back\\slash %41 a/b?c=d&e ~ tab\t nl\n del\x7f nul\x00 hi\xff\xc3\xa9 Uryyb"
EARLY_B64_STD = b"ZWFybHkgY2FsbCA+Pj4/Pz8gcHJvYmU="
EARLY_B64_URL = b"ZWFybHkgY2FsbCA-Pj4_Pz8gcHJvYmU="
EARLY_RECS = [(ENC, 0, EARLY_TEXT), (ENC, 1, EARLY_TEXT), (DEC, 0, EARLY_B64_STD), (DEC, 1, EARLY_B64_URL), (DEC, 0, EARLY_B64_URL),
              (ROT, 0, EARLY_TEXT), (URL, 0, EARLY_TEXT), (URL, 1, EARLY_TEXT), (CTRL, 0, EARLY_TEXT), (CTRL, 1, EARLY_TEXT),
              (QUOTES, 0, EARLY_TEXT)]
SWEEP_HI = {"quick": 16501, "thorough": 70001}
SWEEP_SAMPLE = {"quick": 8, "thorough": 64}


def gen_round5_records(tier, seed, shard, nshards):
    """alignment-sweep records, dense base64 length sweep, dense 0..5000 sweeps of the other functions."""
    r = random.Random("c11-r5-%s-%d-%d" % (tier, seed, shard))
    # alignment sweep: sizes 0..80 and a few large ones, (ptr,size) entry points; the harness repeats each at offsets 1..15
    sizes = list(range(0, 81)) + [255, 256, 257, 1000, 4095, 4096, 4097, 12289, 16385, 65537]
    i = 0
    for n in sizes:
        for flag in (0, 1):
            for kind in ("enc", "dec-valid", "dec-any", "rot"):
                mine = i % nshards == shard
                i += 1
                if not mine or (kind == "rot" and flag):
                    continue
                rr = random.Random("c11-align-%d-%d-%d-%s" % (seed, n, flag, kind))
                if kind == "enc":
                    yield _rec(ENC, flag | F_ALIGN, rr.randbytes(n))
                elif kind == "dec-valid":
                    yield _rec(DEC, flag | F_ALIGN, ref_encode(rr.randbytes(n), flag))
                elif kind == "dec-any":     # n characters, mostly alphabet: lengths that are not multiples of 4, stray characters
                    yield _rec(DEC, flag | F_ALIGN, bytes(rr.choices(b"ABCDwxyz0189+/-_=!", k=n)))
                else:
                    yield _rec(ROT, F_ALIGN, bytes(rr.choices(b"abcmnopzABCMNOPZ @[`{\xe1", k=n)))
    # dense base64 sweep: every length, both alphabets, split over the shards by stride
    for flag in (0, 1):
        yield _rec(SWEEP, flag, struct.pack("<IIIIIQ", 0, SWEEP_HI[tier], nshards, shard, SWEEP_SAMPLE[tier], r.getrandbits(63)))
    # dense sweep 0..5000 of the other functions, one input per length and mode, ~10% characters that need escaping
    plain = b"abcdefghijklmnopqrstuvwxyzABCDEFGHIJKLMNOPQRSTUVWXYZ0123456789"
    pool = plain * 3 + ESC_SPECIAL[:20]
    for n in range(shard, 5001, nshards):
        for op, flag in ((ROT, 0), (URL, 0), (URL, 1), (CTRL, 0), (CTRL, 1), (QUOTES, 0)):
            yield _rec(op, flag, bytes(r.choices(pool, k=n)))


# ---- netloc: hosts built from the syntax characters of neighbouring notations, each x a port ladder ----------------
PORT_LADDER = (0, 1, 9, 10, 79, 80, 99, 100, 443, 999, 1000, 8080, 9999, 10000, 32767, 32768, 65534, 65535)
NET_SYMS = b"[]a1.-@/%"                      # exhaustive short hosts over these
NON_COLON = [c for c in range(256) if c != 0x3A]
_DELIMS = [(b"[", b"]"), (b"(", b")"), (b"<", b">"), (b"{", b"}"), (b'"', b'"'), (b"'", b"'"), (b"/", b"/"), (b"%", b"%"),
           (b"@", b"@"), (b" ", b" "), (b"\0", b"\0"), (b"\\", b"\\"), (b"#", b"?"), (b"//", b"/"), (b"%5B", b"%5D")]
_SYNTAX_HOSTS = [
    b"[", b"]", b"[]", b"][", b"[a]", b"[a]b", b"a[b]", b"[a", b"a]", b"host]", b"[host", b"[[a]]", b"[a]]", b"[[a]", b"[a][b]",
    b"[fe80]", b"[node-7]", b"[1.2.3.4]", b"[]x", b"x[]", b"[a]b]", b"]a[", b"[80]", b"[]80", b"[.]", b"[-]", b"[ ]", b"[\0]",
    b"@", b"a@b", b"user@host", b"@host", b"host@", b"user@[host]", b"/", b"a/b", b"/path", b"host/", b"//host", b"//host/",
    b"?", b"a?b=c", b"#", b"a#frag", b"%", b"%%", b"%3A", b"%3a80", b"a%3Ab", b"a%3A80", b"%00", b"%5Ba%5D", b"+", b"a+b",
    b" ", b" a", b"a ", b" a ", b"a b", b"host 80", b"\0", b"\0a", b"a\0", b"a\0b", b"\0\0", b'"', b'"a"', b"'", b"'a'", b"\\",
    b"a\\b", b"\\\\host", b"<unknown>", b"<", b">", b"<a>", b"\t", b"\n", b"a\n", b"\r\n", b"host\n80", b"~", b"http//x", b".",
    b"..", b"a.", b".a", b"-", b"--", b"-a", b"a-", b"_", b"*", b"*.example.com", b"[*]", b"localhost", b"a;b", b"a,b", b"a=b",
    b"a&b", b"a|b", b"$HOME", b"`a`", b"{a}", b"(a)", b"\x7f", b"\xff", b"\x80[", b"]\x80", b"\xef\xbc\x9a", b"a\xef\xbc\x9a80",
    b"\xc0\xba", b"a\xc0\xba80", b"\xe2\x80\x8b", b"xn--nxasmq6b", b"h\xc3\xb6st",
]
_DIGIT_HOSTS = [b"0", b"00", b"000", b"1", b"9", b"10", b"80", b"080", b"443", b"8080", b"65535", b"65536", b"99999", b"100000",
                b"4294967295", b"4294967296", b"18446744073709551615", b"18446744073709551616", b"9" * 40, b"0" * 40,
                b"1.5", b"1e3", b"0x50", b"-1", b"+1", b" 80", b"80 ", b"1.", b".1", b"0.0.0.0", b"255.255.255.255",
                b"1.2.3.4.5", b"nan", b"inf", b"-inf", b"NaN", b"infinity", b"1e400", b"0x1p4", b"80abc", b"80]", b"[80"]


def _nethead(family, ports):
    fam = family.encode()
    return bytes([len(fam)]) + fam + bytes([len(ports)]) + b"".join(struct.pack("<I", p) for p in ports)


def _nethosts(family, hosts, ports=PORT_LADDER):
    for h in hosts:
        assert h and b":" not in h and len(h) < 65536, h
    return _rec(NETHOSTS, 0, _nethead(family, ports) + b"".join(struct.pack("<H", len(h)) + h for h in hosts))


def _netenum(family, syms, L, prefix, ports=PORT_LADDER):
    assert b":" not in syms and b":" not in prefix
    return _rec(NETENUM, 0, _nethead(family, ports) + bytes([len(syms)]) + syms + bytes([L, len(prefix)]) + prefix)


def netloc_family_hosts(tier, seed):
    """family name -> list of hosts (non-empty, colon-free byte strings)."""
    quick = tier == "quick"
    fam = {}
    fam["single-byte"] = [bytes([c]) for c in NON_COLON]
    ends = []
    for c in NON_COLON:
        b = bytes([c])
        ends += [b + b"host", b"host" + b, b + b"a" + b, b + b, b + b"example.com" + b]
    fam["byte-at-ends"] = ends
    fam["syntax-chars"] = list(dict.fromkeys(_SYNTAX_HOSTS))
    fam["all-digits-portlike"] = list(dict.fromkeys(_DIGIT_HOSTS + [b"%d" % p for p in PORT_LADDER]))
    r = random.Random("c11-nethosts-%s-%d" % (tier, seed))
    inners = [b"a", b"host", b"1", b"80", b"node-7", b"1.2.3.4", b"fe80", b"", b"x.y", b"a b"]
    inners += [bytes(r.choice(NON_COLON) for _ in range(r.randint(1, 12))) for _ in range(4 if quick else 40)]
    wrapped = []
    for o, c in _DELIMS:
        for inner in inners:
            wrapped += [o + inner + c, o + inner, inner + c, o + inner + c + b"x", b"x" + o + inner + c, o + o + inner + c + c,
                        o + inner + c + o + inner + c]
    fam["wrapped-in-delimiters"] = [h for h in dict.fromkeys(wrapped) if h]
    alpha = b"[]@/?#%+ \0\"'\\<>&=;,.-_~abcXYZ0189\xff\x80"
    rnd = []
    for i in range(400 if quick else 4000):
        n = r.randint(2, 6) if i % 2 else r.randint(7, 40)
        rnd.append(bytes(r.choice(alpha) for _ in range(n)))
    fam["random-syntax-mix"] = rnd
    for hosts in fam.values():
        for h in hosts:
            assert h and b":" not in h
    return fam


NETENUM_MAXLEN = {"quick": 4, "thorough": 5}


def gen_netloc_family_records(tier, seed, shard, nshards):
    for name, hosts in netloc_family_hosts(tier, seed).items():
        mine = hosts[shard::nshards]
        if mine:
            yield _nethosts(name, mine)
    # exhaustive: every string of length 1..4 (quick) / 1..5 (thorough) over NET_SYMS, split by the first character
    j = 0
    for L in range(1, NETENUM_MAXLEN[tier] + 1):
        for a in NET_SYMS:
            if j % nshards == shard:
                yield _netenum("enum-syntax-alphabet", NET_SYMS, L, bytes([a]))
            j += 1


# ---- escapers: exhaustive short strings over the syntax characters of the escape notations themselves ---------------
ESC_SYMS12 = b"%\\x41\"'n/ +&"        # what already-escaped text is made of: %41 \x41 \n \" \\ + &
ESC_SYMS8 = b"%\\x41\"'/"


def gen_escaper_syntax_records(tier, seed, shard, nshards):
    quick = tier == "quick"
    plans = [(ESC_SYMS12, 3), (ESC_SYMS8, 4)] if quick else [(ESC_SYMS12, 3), (ESC_SYMS12, 4), (ESC_SYMS8, 5)]
    fixed = [b"%41", b"%2F", b"%2f", b"%%", b"%%41", b"%25", b"%2541", b"100%", b"%4", b"%G1", b"%u0041", b"a+b", b"a%20b",
             b"\\x41", b"\\\\x41", b"\\n", b"\\\\n", b"\\\"", b"\\\\\"", b"\\", b"\\\\", b"\\x4", b"\\xZZ", b"\\u0041", b"\\0", b"\\101",
             b"&amp;", b"&#65;", b"&quot;", b"\"\"", b"'\"'", b"\"\\\"", b"a\\", b"\\\"\\", b"%5C", b"%22", b"\\x22", b"\\x5c",
             b"=?UTF-8?B?QQ==?=", b"${x}", b"$(x)", b"`x`", b"<a href=\"x\">", b"\x1b[0m", b"\xef\xbc\x85" b"41", b"\xc0\xa2"]
    i = 0
    for op, flag in ((URL, 0), (URL, 1), (CTRL, 0), (CTRL, 1), (QUOTES, 0)):
        for x in fixed:
            if i % nshards == shard:
                yield _rec(op, flag, x)
            i += 1
        for syms, L in plans:
            for t in itertools.product(syms, repeat=L):
                if i % nshards == shard:
                    yield _rec(op, flag, bytes(t))
                i += 1


def gen_shard_records(tier, seed, shard, nshards):
    """Yields this shard's records. Deterministic in (tier, seed, shard)."""
    quick = tier == "quick"
    r = random.Random("c11-%s-%d-%d" % (tier, seed, shard))

    def mine(i):
        return i % nshards == shard

    # ---- early-call probe: the first records of EVERY shard (each process has run its static initializers)
    for op, flag, x in EARLY_RECS:
        yield _rec(op, flag | F_EARLY, x)

    # ---- base64 encode: all strings of length 0..2, length 3 over a byte subset, random longer
    s3 = list(S32)
    if not quick:
        extra = random.Random("c11-s64-%d" % seed)
        while len(s3) < 64:
            v = extra.getrandbits(8)
            if v not in s3:
                s3.append(v)
    for flag in (0, 1, 2):
        if shard == 0:
            yield _rec(ENC, flag, b"")
        for a in range(256):
            if not mine(a):
                continue
            yield _rec(ENC, flag, bytes([a]))
            if flag == 2 and a % 16:
                continue                      # explicit DEFAULT_ALPHABET pointer: reduced share
            for b in range(256):
                yield _rec(ENC, flag, bytes([a, b]))
        for i, a in enumerate(s3):
            if not mine(i) or flag == 2:
                continue
            for b in s3:
                for c in s3:
                    yield _rec(ENC, flag, bytes([a, b, c]))
    nrand = (20000 if quick else 100000) // nshards + 1
    for flag in (0, 1):
        for i in range(nrand):
            u = r.random()
            n = r.randint(4, 24) if u < 0.6 else r.randint(25, 200) if u < 0.95 else r.randint(201, 5000)
            yield _rec(ENC, flag, _rand_bytes(r, n, i % 2))

    # ---- base64 decode strictness: exhaustive reduced-alphabet strings
    syms8 = SYMS8_Q if quick else SYMS8_T
    for flag in (0, 1):
        if shard == 0:
            yield _rec(DEC, flag, b"")
        for L in (1, 2, 3, 5, 6, 7):
            if mine(L):
                yield _decenum(flag, SYMS_SHORT, L, b"")
        for i, a in enumerate(SYMS4):
            if mine(i + 3):
                yield _decenum(flag, SYMS4, 4, bytes([a]))
        for i, (a, b) in enumerate(itertools.product(syms8, repeat=2)):
            if mine(i):
                yield _decenum(flag, syms8, 8, bytes([a, b]))
    # ---- single-character corruptions of valid encodings, at every position
    nvalid = (200 if quick else 1000) // nshards + 1
    for flag in (0, 1):
        for i in range(nvalid):
            n = r.randint(1, 30) if i % 8 else r.choice((1, 2, 3, 4, 5, 6))
            enc = ref_encode(_rand_bytes(r, n, i % 2), flag)
            yield _rec(DEC, flag, enc)
            for pos in range(len(enc)):
                for ch in CORRUPT:
                    if ch != enc[pos]:
                        yield _rec(DEC, flag, enc[:pos] + bytes([ch]) + enc[pos + 1:])
            # length corruptions: drop / add one character
            yield _rec(DEC, flag, enc[:-1])
            yield _rec(DEC, flag, enc + b"A")
            yield _rec(DEC, flag, enc + b"=")
            yield _rec(DEC, flag, b"=" + enc[:-1])
    # ---- random strings over a mixed alphabet
    mixed = bytes(sorted(STD | URLSAFE)) * 3 + b"====!!  \n\x00\x80\xff"
    for flag in (0, 1):
        for i in range((20000 if quick else 100000) // nshards + 1):
            n = 4 * r.randint(1, 8) if r.random() < 0.9 else r.randint(1, 33)
            body = bytes(r.choice(mixed[:192]) if r.random() < 0.97 else r.choice(mixed) for _ in range(n))
            if r.random() < 0.5 and n >= 2:
                k = r.choice((1, 2))
                body = body[:n - k] + b"=" * k
            yield _rec(DEC, flag, body)

    # ---- rot13
    if shard == 0:
        yield _rec(ROT, 0, b"")
        yield _rec(ROT, 0, bytes(range(256)))
        yield _rec(ROT, 0, bytes(range(255, -1, -1)) * 3)
    for a in range(256):
        if not mine(a):
            continue
        yield _rec(ROT, 0, bytes([a]))
        for b in range(256):
            yield _rec(ROT, 0, bytes([a, b]))
    letters = b"abcdefghijklmnopqrstuvwxyzABCDEFGHIJKLMNOPQRSTUVWXYZ@[`{ \xe1\xc1\x00"
    for i in range((5000 if quick else 50000) // nshards + 1):
        n = r.randint(3, 100)
        yield _rec(ROT, 0, bytes(r.choice(letters) for _ in range(n)) if i % 2 else r.randbytes(n))

    # ---- escapers: all strings of length 0..2, random longer
    modes = [(URL, 0), (URL, 1), (CTRL, 0), (CTRL, 1), (QUOTES, 0)]
    for op, flag in modes:
        if shard == 0:
            yield _rec(op, flag, b"")
        for a in range(256):
            if not mine(a):
                continue
            yield _rec(op, flag, bytes([a]))
            for b in range(256):
                yield _rec(op, flag, bytes([a, b]))
        for i in range((10000 if quick else 100000) // nshards + 1):
            n = r.randint(3, 12) if r.random() < 0.6 else r.randint(13, 300)
            yield _rec(op, flag, _rand_bytes(r, n, 2 if i % 4 else 0))

    # ---- length ladder (sizes around 2^k and 3*2^k up to 1 MiB+1) for every encoder / decoder / escaper
    yield from gen_ladder_records(tier, seed, shard, nshards)

    # ---- round 5: alignment sweep, dense length sweeps
    yield from gen_round5_records(tier, seed, shard, nshards)

    # ---- netloc: every port for each host; the port range is split over the shards
    hosts = list(HOSTS)
    hr = random.Random("c11-hosts-%s-%d" % (tier, seed))
    for _ in range(6 if quick else 100):
        n = hr.choice((1, 2, 3, 10, 63, 64, 253, 254, 255, 256, 1000)) if hr.random() < 0.5 else hr.randint(1, 80)
        hosts.append(bytes(hr.choice([c for c in range(256) if c != 0x3A]) for _ in range(n)))
    step = 65536 // nshards
    lo, hi = shard * step, (65536 if shard == nshards - 1 else (shard + 1) * step)
    for h in hosts:
        yield _rec(NETLOC, 0, struct.pack("<II", lo, hi) + h)

    # ---- round 5b: hosts / escaper inputs built from the syntax characters of neighbouring notations
    yield from gen_netloc_family_records(tier, seed, shard, nshards)
    yield from gen_escaper_syntax_records(tier, seed, shard, nshards)


def _gen_shard(job):
    path, tier, seed, shard, nshards = job
    n = 0
    with open(path + ".tmp", "wb") as f:
        f.write(b"C11C\0\0\0\0")
        chunk = []
        for rec in gen_shard_records(tier, seed, shard, nshards):
            chunk.append(rec)
            n += 1
            if len(chunk) >= 50000:
                f.write(b"".join(chunk))
                chunk = []
        f.write(b"".join(chunk))
        f.seek(4)
        f.write(struct.pack("<I", n))
    os.replace(path + ".tmp", path)
    return n


# ------------------------------------------------------------------------------------------------
# judge

class _Res:
    def __init__(self):
        self.evaluations = 0
        self.classes = {}
        self.counters = {}
        self.violations = []
        self.vcounts = {}
        self.samples = []
        self.prefix = ""
        self.prior = None               # (name, family) while records of the prior-history stage are judged

    def cls(self, k, n=1):
        k = self.prefix + k
        self.classes[k] = self.classes.get(k, 0) + n

    def violation(self, key, what, case):
        if self.prior is not None:
            # judged as always; the key says that the call was made right after an unrelated earlier use of phosg's helpers
            head, _, rest = key.partition(":")
            key = "%s:prior-history:%s%s" % (head, self.prior[1], ":" + rest if rest else "")
            case = "on a fresh thread after prior [%s]: %s" % (self.prior[0], case)
        key = self.prefix + key
        c = self.vcounts.get(key, 0) + 1
        self.vcounts[key] = c
        if c <= 5:
            self.violations.append({"key": key, "what": what, "case": case})

    def as_dict(self):
        return {"evaluations": self.evaluations, "classes": self.classes, "counters": self.counters,
                "violations": self.violations, "violation_counts": self.vcounts, "samples": self.samples}


class Truncated(Exception):
    pass


class _Obs:
    def __init__(self, data):
        self.d = data
        self.p = 4

    def field(self):
        d, p = self.d, self.p
        if p + 5 > len(d):
            raise Truncated()
        st = d[p]
        n = struct.unpack_from("<I", d, p + 1)[0]
        if p + 5 + n > len(d):
            raise Truncated()
        self.p = p + 5 + n
        return st, d[p + 5:p + 5 + n]


def _show(b, limit=120):
    b = bytes(b)
    return (b[:limit].hex() + ("...(%d bytes)" % len(b) if len(b) > limit else "")) + " " + repr(b[:limit])


STATUS = {0: "returned", 1: "threw invalid_argument", 2: "threw another std::exception", 3: "threw a non-std exception",
          4: "(skipped)"}


def judge_decode(res, s, flag, st, out, how):
    """One observed base64_decode(s) result. how = 'ptr' | 'string' | 'enum'."""
    alpha = alpha_set(flag)
    an = alpha_name(flag)
    res.evaluations += 1
    if not wellformed(s, alpha):
        why = why_malformed(s, alpha)
        if st == 0:
            res.violation("b64dec:accepted:%s:%s" % (why, an),
                          "base64_decode returned a value for a string the statement requires it to reject with invalid_argument",
                          "alphabet=%s overload=%s input=%s returned=%s" % (an, how, _show(s), _show(out)))
        elif st != 1:
            res.violation("b64dec:wrong-exception:%s:%s" % (why.split(":")[0], an),
                          "base64_decode rejected a malformed string with something other than std::invalid_argument",
                          "alphabet=%s overload=%s input=%s outcome=%s %s" % (an, how, _show(s), STATUS.get(st), _show(out)))
        res.cls("b64dec:malformed:%s" % why.split(":")[0] if how == "enum" else "b64dec:malformed:%s:%s" % (why, an))
        return
    npad = 2 if s[-2:] == b"==" else 1 if s[-1:] == b"=" else 0
    want = ref_decode(s, flag)
    if ref_encode(want, flag) != s:
        # well-formed but non-canonical (non-zero discarded bits): the statement demands nothing
        res.cls("b64dec:noncanonical-trailing-bits:%s:%s" % (STATUS.get(st, "?").split()[0], an))
        return
    if st != 0:
        res.violation("b64dec:rejected-valid:%d-pad:%s" % (npad, an),
                      "base64_decode threw on a string that is the RFC 4648 encoding of some byte string",
                      "alphabet=%s overload=%s input=%s outcome=%s %s" % (an, how, _show(s), STATUS.get(st), _show(out)))
    elif bytes(out) != want:
        res.violation("b64dec:value:%d-pad:%s" % (npad, an), "base64_decode differs from Python base64",
                      "alphabet=%s overload=%s input=%s returned=%s expected=%s" % (an, how, _show(s), _show(out), _show(want)))
    res.cls("b64dec:valid:%d-pad:%s:%s" % (npad, an, "len0" if not s else "1-group" if len(s) == 4 else "2-groups" if len(s) == 8 else "3+groups"))


def judge_shard(job):
    cases_path, obs_path, tolerate_truncation = job
    res = _Res()
    with open(cases_path, "rb") as f:
        cd = f.read()
    try:
        with open(obs_path, "rb") as f:
            od = f.read()
    except OSError:
        if tolerate_truncation:
            return res.as_dict(), True
        raise
    if cd[:4] != b"C11C" or od[:4] != b"C11O":
        if tolerate_truncation:
            return res.as_dict(), True
        raise RuntimeError("bad magic in %s / %s" % (cases_path, obs_path))
    nrec = struct.unpack_from("<I", cd, 4)[0]
    obs = _Obs(od)
    p = 8
    truncated = False
    skip_records = 0
    try:
        irec = 0
        while irec + skip_records < nrec:
            irec += 1
            op, flag, n = struct.unpack_from("<BBI", cd, p)
            x = cd[p + 6:p + 6 + n]
            p += 6 + n
            res.prefix = "early-call:" if flag & F_EARLY else ""    # results produced by the static initializer
            if flag & F_ALIGN:
                res.cls("alignment-reference:%s" % {ENC: "b64enc", DEC: "b64dec", ROT: "rot13"}.get(op, "?"))
            if op == PRIOR:                 # prior-history stage: payload = family NUL name; no observation field
                fam, _, name = bytes(x).partition(b"\0")
                res.prior = (name.decode(), fam.decode())
                res.cls("prior:%s:judged-by-python" % res.prior[1])
                continue
            if op == TRIAL:                 # cold-start stage: one status field per trial; a dead child logged nothing else
                nrecs_t = struct.unpack_from("<H", x, 0)[0]
                st_t, how_t = obs.field()
                res.cls("trial:%s" % ("completed" if st_t == 0 else "child-died"))
                if st_t != 0:
                    for _ in range(nrecs_t):
                        _op, _fl, _n = struct.unpack_from("<BBI", cd, p)
                        p += 6 + _n
                    skip_records += nrecs_t
                continue
            flag &= 0x0F
            if flag == 3 and op in (ENC, DEC):
                # caller-supplied alphabet: the statement covers "both alphabets" only -> logged, counted, not judged
                for _ in range(4 if op == ENC else 2):
                    obs.field()
                res.cls("custom-alphabet:%s:observed-not-judged" % ("b64enc" if op == ENC else "b64dec"))
                continue
            if op == SWEEP:
                lo, hi, stride, first, every, sd = struct.unpack("<IIIIIQ", x)
                an = alpha_name(flag)
                for cnt, ln in enumerate(range(lo + first, hi, stride)):
                    if cnt % every:
                        continue
                    (st0, data), (st1, enc) = obs.field(), obs.field()
                    res.evaluations += 1
                    if len(data) != ln:
                        raise RuntimeError("sweep log out of step in %s" % obs_path)
                    if st1 != 0 or enc != ref_encode(data, flag):
                        res.violation("b64sweep:value:%s" % an, "base64_encode differs from Python base64 in the dense length sweep",
                                      "alphabet=%s n=%d input=%s got=%s" % (an, ln, _show(data, 40), _show(enc, 60)))
                res.cls("b64sweep:sampled-vs-python:%s:to%d" % (an, hi))
                continue
            if op == ENC:
                want = ref_encode(x, flag)
                an = alpha_name(flag)
                f = [obs.field() for _ in range(4)]
                res.evaluations += 4
                for (st, out), how in ((f[0], "ptr"), (f[1], "string")):
                    if st != 0 or out != want:
                        res.violation("b64enc:value:%s:rem%d%s" % (an, n % 3, "" if how == "ptr" else ":string-overload"),
                                      "base64_encode differs from Python base64 (RFC 4648)",
                                      "alphabet=%s overload=%s input=%s outcome=%s %s expected=%s" % (an, how, _show(x), STATUS.get(st), _show(out), _show(want)))
                for (st, out), how in ((f[2], "ptr"), (f[3], "string")):
                    if st == 4:
                        continue
                    if st != 0 or out != x:
                        res.violation("b64:roundtrip:%s:rem%d%s" % (an, n % 3, "" if how == "ptr" else ":string-overload"),
                                      "base64_decode(base64_encode(x)) != x",
                                      "alphabet=%s overload=%s x=%s decode-outcome=%s %s" % (an, how, _show(x), STATUS.get(st), _show(out)))
                res.cls("b64enc:%s:rem%d:%s" % (an, n % 3, "len0-3" if n <= 3 else "len4-200" if n <= 200 else "len201+"))
                if n >= 1024:
                    res.cls("big:b64enc:%s:%s" % (an, _sizeclass(n)))
                if flag == 2:
                    res.cls("b64enc:explicit-DEFAULT_ALPHABET-pointer")
                if len(res.samples) < 2 and n >= 5:
                    res.samples.append("base64_encode(%s, %s) == %r and decodes back" % (x[:40].hex(), an, want[:60]))
            elif op == DEC:
                st, out = obs.field()
                st2, out2 = obs.field()
                judge_decode(res, x, flag, st, out, "ptr")
                judge_decode(res, x, flag, st2, out2, "string")
                if n >= 1024:
                    res.cls("big:b64dec:%s:%s:%s" % (alpha_name(flag), "returned" if st == 0 else "rejected", _sizeclass(n)))
            elif op == DECENUM:
                nsym = x[0]
                syms = x[1:1 + nsym]
                L, plen = x[1 + nsym], x[2 + nsym]
                prefix = bytes(x[3 + nsym:3 + nsym + plen])
                d = obs.d
                alpha = alpha_set(flag)
                nrej = 0
                for tail in itertools.product(syms, repeat=L - plen):
                    s = prefix + bytes(tail)
                    q = obs.p
                    if q >= len(d):
                        raise Truncated()
                    st = d[q]
                    if st == 1 and not wellformed(s, alpha):
                        obs.p = q + 1       # malformed and rejected with invalid_argument: as required
                        nrej += 1
                        continue
                    out = b""
                    if st == 0:
                        if q + 2 > len(d) or q + 2 + d[q + 1] > len(d):
                            raise Truncated()
                        out = d[q + 2:q + 2 + d[q + 1]]
                        obs.p = q + 2 + d[q + 1]
                    else:
                        obs.p = q + 1
                    judge_decode(res, s, flag, st, out, "enum")
                res.evaluations += nrej
                res.cls("b64dec:enumerated-malformed-rejected:L%d:%s" % (L, alpha_name(flag)), nrej)
                res.cls("b64dec:enumerated:L%d:%dsyms:%s" % (L, nsym, alpha_name(flag)))
                res.counters["decenum_strings_L%d" % L] = res.counters.get("decenum_strings_L%d" % L, 0) + nsym ** (L - plen)
            elif op == ROT:
                st, y = obs.field()
                st2, z = obs.field()
                res.evaluations += 2
                want = x.translate(ROT_TABLE)
                if st != 0:
                    res.violation("rot13:throws", "rot13 threw", "input=%s outcome=%s %s" % (_show(x), STATUS.get(st), _show(y)))
                else:
                    if y == want:
                        pass                # equal to the reference table output: length and "only letters change" hold too
                    elif len(y) != len(x):
                        res.violation("rot13:length", "rot13 changed the length", "input=%s output=%s" % (_show(x), _show(y)))
                    else:
                        for a, b in zip(x, y):
                            if a != b and not (65 <= a <= 90 or 97 <= a <= 122):
                                res.violation("rot13:non-letter-changed", "rot13 changed a byte that is not an ASCII letter",
                                              "input=%s output=%s byte=0x%02x->0x%02x" % (_show(x), _show(y), a, b))
                                break
                        if y != want:
                            res.violation("rot13:value", "rot13 differs from rotate-by-13 within each letter case",
                                          "input=%s output=%s expected=%s" % (_show(x), _show(y), _show(want)))
                    if st2 != 0 or z != x:
                        res.violation("rot13:involution", "rot13(rot13(x)) != x", "x=%s rot13(x)=%s rot13(rot13(x))=%s" % (_show(x), _show(y), _show(z)))
                has_l = _HAS_LETTER.search(x) is not None
                res.cls("rot13:%s:%s" % ("letters" if has_l else "no-letters", "len0-2" if n <= 2 else "len3+"))
                if n >= 1024:
                    res.cls("big:rot13:%s" % _sizeclass(n))
            elif op == URL:
                st, out = obs.field()
                res.evaluations += 1
                mode = "escape-slash" if flag else "keep-slash"
                if st != 0:
                    res.violation("escape_url:throws", "escape_url threw", "input=%s outcome=%s %s" % (_show(x), STATUS.get(st), _show(out)))
                else:
                    if not URL_OK[1 if flag else 0].match(out):
                        res.violation("escape_url:forbidden-byte:%s" % mode,
                                      "escape_url output contains a byte outside [A-Za-z0-9-_.~=&%s] / %%HH" % ("" if flag else "/"),
                                      "escape_slash=%d input=%s output=%s" % (flag, _show(x), _show(out)))
                    if urllib.parse.unquote_to_bytes(bytes(out)) != x:
                        res.violation("escape_url:roundtrip:%s" % mode, "urllib.parse.unquote_to_bytes(escape_url(x)) != x",
                                      "escape_slash=%d input=%s output=%s unquoted=%s" % (flag, _show(x), _show(out), _show(urllib.parse.unquote_to_bytes(bytes(out)))))
                res.cls("escape_url:%s:%s:%s" % (mode, "escaped" if out != x else "verbatim", "len0-2" if n <= 2 else "len3+"))
                if n >= 1024:
                    res.cls("big:escape_url:%s:%s" % (mode, _sizeclass(n)))
            elif op == CTRL:
                st, out = obs.field()
                res.evaluations += 1
                mode = "ascii" if flag else "utf8"
                if st != 0:
                    res.violation("escape_controls:throws", "escape_controls threw", "input=%s outcome=%s %s" % (_show(x), STATUS.get(st), _show(out)))
                else:
                    if not CTRL_OK[1 if flag else 0].match(out):
                        res.violation("escape_controls:forbidden-byte:%s" % mode,
                                      "escape_controls output contains a raw control character, quote, backslash%s or a malformed escape" % (" or non-ASCII byte" if flag else ""),
                                      "escape_non_ascii=%d input=%s output=%s" % (flag, _show(x), _show(out)))
                    back = unescape_controls(bytes(out))
                    if back != x:
                        res.violation("escape_controls:roundtrip:%s" % mode, "independent unescaper(escape_controls(x)) != x",
                                      "escape_non_ascii=%d input=%s output=%s unescaped=%s" % (flag, _show(x), _show(out), _show(back)))
                res.cls("escape_controls:%s:%s:%s" % (mode, "escaped" if out != x else "verbatim", "len0-2" if n <= 2 else "len3+"))
                if n >= 1024:
                    res.cls("big:escape_controls:%s:%s" % (mode, _sizeclass(n)))
                if len(res.samples) < 3 and n >= 4 and out != x:
                    res.samples.append("escape_controls(%s, %d) == %r, unescapes back" % (x[:30].hex(), flag, bytes(out[:80])))
            elif op == QUOTES:
                st, out = obs.field()
                res.evaluations += 1
                if st != 0:
                    res.violation("escape_quotes:throws", "escape_quotes threw", "input=%s outcome=%s %s" % (_show(x), STATUS.get(st), _show(out)))
                else:
                    if RAW_QUOTE.search(out):
                        res.violation("escape_quotes:raw-quote", "escape_quotes output contains a '\"' not preceded by a backslash",
                                      "input=%s output=%s" % (_show(x), _show(out)))
                    if NON_PRINTABLE.search(out):
                        res.violation("escape_quotes:non-printable", "escape_quotes output contains a byte outside 0x20..0x7E",
                                      "input=%s output=%s" % (_show(x), _show(out)))
                res.cls("escape_quotes:%s:%s" % ("escaped" if out != x else "verbatim", "len0-2" if n <= 2 else "len3+"))
                if n >= 1024:
                    res.cls("big:escape_quotes:%s" % _sizeclass(n))
            elif op in (NETLOC, NETHOSTS, NETENUM):
                pass                        # round-trip law, compared in the harness
            else:
                raise RuntimeError("unknown op %d in %s" % (op, cases_path))
    except Truncated:
        truncated = True
        if not tolerate_truncation:
            raise RuntimeError("observation log %s is shorter than its case file" % obs_path)
    if not truncated and obs.p != len(od):
        raise RuntimeError("observation log %s has %d unread trailing bytes" % (obs_path, len(od) - obs.p))
    return res.as_dict(), truncated


def self_test():
    assert wellformed(b"", STD) and wellformed(b"QUJD", STD) and wellformed(b"QUI=", STD) and wellformed(b"QQ==", STD)
    for bad in (b"QUJ", b"QU!=", b"Q=JD", b"=UJD", b"QQ=A", b"QQ==QUJD", b"QUI=QUJD", b"Q===", b"====", b"QU-_", b"QUJD\n"):
        assert not wellformed(bad, STD), bad
    assert wellformed(b"QU-_", URLSAFE) and not wellformed(b"QU+/", URLSAFE)
    for alpha in (STD, URLSAFE):
        for L in range(0, 6):
            for t in itertools.product(b"AQ=!/-\n", repeat=L):
                assert wellformed(bytes(t), alpha) == wellformed_spelled_out(bytes(t), alpha), t
        for t in itertools.product(b"A=+\xff", repeat=8):
            assert wellformed(bytes(t), alpha) == wellformed_spelled_out(bytes(t), alpha), t
    assert why_malformed(b"QU!=", STD) == "non-alphabet-char:pos2-of-final-group:1-pad"
    assert bytes(range(256)).translate(ROT_TABLE).translate(ROT_TABLE) == bytes(range(256))
    assert b"Hello, World!".translate(ROT_TABLE) == b"Uryyb, Jbeyq!"
    assert unescape_controls(rb"a\x00\n\\\"\'\x7Fz") == b"a\x00\n\\\"'\x7fz"
    assert CTRL_OK[1].match(rb"a\x00\n\\z") and not CTRL_OK[1].match(b"a\"") and not CTRL_OK[1].match(b"\xc3") and CTRL_OK[0].match(b"\xc3")
    assert URL_OK[0].match(b"a/b%2Fc") and not URL_OK[1].match(b"a/b") and not URL_OK[0].match(b"50%") and not URL_OK[0].match(b"a b")


def stage(ctx, st):
    from vf import driver
    self_test()
    workdir, tier, seed = ctx["workdir"], ctx["tier"], int(ctx["seed"])
    cbase = os.path.join(workdir, "c11_cases")
    obase = os.path.join(workdir, "c11_obs")
    ncpu = min(NSHARDS, os.cpu_count() or 4)
    jobs = [("%s.%d.bin" % (cbase, s), tier, seed, s, NSHARDS) for s in range(NSHARDS)]
    t0 = time.time()
    with ProcessPoolExecutor(max_workers=ncpu) as ex:
        nrecs = list(ex.map(_gen_shard, jobs))
    t1 = time.time()
    merged = driver.run_harness_stage(ctx, {"name": "c11", "variant": "asan", "shards": (NSHARDS, NSHARDS), "tag": st.get("tag", "c11"),
                                            "args": ["cases=" + cbase, "obs=" + obase], "timeout": (600, 3600)})
    harness_died = bool(merged["violations"]) or ctx.get("only_shard") is not None
    shards = [ctx["only_shard"]] if ctx.get("only_shard") is not None else list(range(NSHARDS))
    jjobs = [("%s.%d.bin" % (cbase, s), "%s.%d.bin" % (obase, s), harness_died) for s in shards]
    t2 = time.time()
    with ProcessPoolExecutor(max_workers=ncpu) as ex:
        judged = list(ex.map(judge_shard, jjobs))
    t3 = time.time()
    merged["extra"].update({"generate_wall_s": round(t1 - t0, 1), "harness_wall_s": round(t2 - t1, 1), "judge_wall_s": round(t3 - t2, 1)})
    meta_cmd = "python: vf.oracles.c11.judge_shard(case file, observation log) after harness/c11.cc"
    for s, (r, truncated) in zip(shards, judged):
        for v in r["violations"]:
            v["meta"] = {"stage": st.get("tag", "c11"), "shard": s, "nshards": NSHARDS, "cmd": meta_cmd}
        driver.merge(merged, r)
    merged["counters"]["case_records"] = sum(nrecs)
    # shortest witness first in each class (the replay file keeps the first five)
    merged["violations"].sort(key=lambda v: (v["key"], len(v.get("case", ""))))
    return merged


# ------------------------------------------------------------------------------------------------
# concurrency stages

MT_SHARDS = {"asan": 4, "tsan": 2}


def gen_mt_records(tier, seed, shard, variant):
    r = random.Random("c11-mt-%s-%s-%d-%d" % (variant, tier, seed, shard))
    recs = []
    for flag in (0, 1):
        for n in list(range(0, 13)) + [r.randint(13, 200) for _ in range(16)]:
            recs.append(_rec(ENC, flag, _rand_bytes(r, n, r.randint(0, 1))))
        for i in range(40):
            enc = ref_encode(_rand_bytes(r, r.randint(1, 40), i % 2), flag)
            if i % 2:                      # corrupt one character (often -> invalid_argument)
                pos = r.randrange(len(enc))
                enc = enc[:pos] + bytes([r.choice(CORRUPT)]) + enc[pos + 1:]
            recs.append(_rec(DEC, flag, enc))
    letters = b"abcdefghijklmnopqrstuvwxyzABCDEFGHIJKLMNOPQRSTUVWXYZ @[`{"
    for _ in range(20):
        recs.append(_rec(ROT, 0, bytes(r.choice(letters) for _ in range(r.randint(1, 120)))))
    for op, flag in ((URL, 0), (URL, 1), (CTRL, 0), (CTRL, 1), (QUOTES, 0)):
        for i in range(40):
            n = r.randint(1, 12) if i % 3 == 0 else r.randint(13, 250)
            if i % 2:                      # every byte needs a \xHH / %HH escape, all different
                data = bytes(r.choice(_ALL_ESCAPED) for _ in range(n))
            else:
                data = _rand_bytes(r, n, 2)
            recs.append(_rec(op, flag, data))
    for h in (b"a", b"example.com", b"h\xc3\xb6st.\xff\x80", b"h" * 255, b"my-host.example.org", b"10.0.0.1", b"x" * 40, b"-"):
        lo = r.choice((0, 1, 9, 99, 999, 9999, 65535 - 48, r.randint(0, 65000)))
        recs.append(_rec(NETLOC, 0, struct.pack("<II", lo, lo + 48) + h))
    r.shuffle(recs)                        # thread t takes records t, t+8, ...: a mix of every function
    return recs


def _gen_mt_shard(job):
    path, tier, seed, shard, variant = job
    recs = gen_mt_records(tier, seed, shard, variant)
    with open(path + ".tmp", "wb") as f:
        f.write(b"C11C" + struct.pack("<I", len(recs)))
        f.write(b"".join(recs))
    os.replace(path + ".tmp", path)
    return len(recs)


def stage_mt(ctx, st):
    from vf import driver
    self_test()
    variant = st.get("variant", "asan")
    nshards = MT_SHARDS[variant]
    tag = st.get("tag", "c11-mt")
    workdir, tier, seed = ctx["workdir"], ctx["tier"], int(ctx["seed"])
    cbase = os.path.join(workdir, "c11_mtcases_" + variant)
    obase = os.path.join(workdir, "c11_mtobs_" + variant)
    jobs = [("%s.%d.bin" % (cbase, s), tier, seed, s, variant) for s in range(nshards)]
    with ProcessPoolExecutor(max_workers=nshards) as ex:
        nrecs = list(ex.map(_gen_mt_shard, jobs))
    args = ["mode=mt", "cases=" + cbase, "obs=" + obase] + (["tsan=1"] if variant == "tsan" else [])
    merged = driver.run_harness_stage(ctx, {"name": "c11", "variant": variant, "shards": (nshards, nshards), "tag": tag,
                                            "args": args, "timeout": (600, 3600)})
    died = bool(merged["violations"]) or ctx.get("only_shard") is not None
    shards = [ctx["only_shard"]] if ctx.get("only_shard") is not None else list(range(nshards))
    shards = [s for s in shards if s < nshards]
    jjobs = [("%s.%d.bin" % (cbase, s), "%s.%d.bin" % (obase, s), died) for s in shards]
    with ProcessPoolExecutor(max_workers=nshards) as ex:
        judged = list(ex.map(judge_shard, jjobs))
    for s, (r, truncated) in zip(shards, judged):
        for v in r["violations"]:
            v["key"] = "mt-reference:" + v["key"]      # the single-threaded reference pass itself was wrong
            v["meta"] = {"stage": tag, "shard": s, "nshards": nshards, "cmd": "python: vf.oracles.c11.judge_shard on the single-threaded pass of the mt stage"}
        r["violation_counts"] = {"mt-reference:" + k: n for k, n in r["violation_counts"].items()}
        r["classes"] = {"reference-pass-judged": sum(r["classes"].values())}
        r["samples"] = []
        driver.merge(merged, r)
    merged["counters"]["mt_case_records"] = sum(nrecs)
    merged["violations"].sort(key=lambda v: (v["key"], len(v.get("case", ""))))
    return merged


# ------------------------------------------------------------------------------------------------
# cold-start stages: the first C11 calls of a fresh process, made by 2..8 threads at once (harness/c11_cold.cc)

COLD_SHARDS = {"asan": 8, "tsan": 4}
COLD_TRIALS = {("asan", "quick"): 250, ("asan", "thorough"): 2500, ("tsan", "quick"): 30, ("tsan", "thorough"): 300}   # per shard
# every function / mode of the property; (ENC|DEC, 3) = caller-supplied alphabet (perturber, not judged)
COLD_FM = [(ENC, 0), (ENC, 1), (ENC, 2), (DEC, 0), (DEC, 1), (DEC, 2), (ROT, 0), (URL, 0), (URL, 1), (CTRL, 0), (CTRL, 1),
           (QUOTES, 0), (NETLOC, 0)]
COLD_PAIRS = [((DEC, 0), (DEC, 1)), ((ENC, 0), (DEC, 0)), ((ENC, 1), (DEC, 1)), ((DEC, 0), (DEC, 3)), ((DEC, 1), (ENC, 3)),
              ((CTRL, 0), (QUOTES, 0)), ((CTRL, 1), (QUOTES, 0)), ((CTRL, 0), (CTRL, 1)), ((URL, 0), (URL, 1)), ((URL, 0), (CTRL, 1)),
              ((ROT, 0), (ENC, 0)), ((NETLOC, 0), (URL, 1)), ((NETLOC, 0), (DEC, 2)), ((DEC, 2), (DEC, 0)), ((ENC, 2), (ENC, 1))]
_COLD_HOSTS = [b"a", b"example.com", b"h\xc3\xb6st.\xff\x80", b"my-host.example.org", b"10.0.0.1", b"[a]", b"-", b"8080", b"a@b/c?d#e"]


def _cold_payload(r, op, flag):
    """One input for function/mode (op, flag)."""
    if op == ENC:
        return _rand_bytes(r, r.choice((0, 1, 2, 3, 4, 5)) if r.random() < 0.2 else r.randint(6, 90), r.randint(0, 1))
    if op == DEC:
        if flag == 3:
            return bytes(r.choice(b"./0123456789ABCDEFGHIJKLMNOPQRSTUVWXYZabcdefghijklmnopqrstuvwxyz") for _ in range(4 * r.randint(1, 12)))
        # valid encodings that use many different alphabet characters (a half-built table shows on whichever are missing);
        # a third of them with one corrupted character or a bad length (must throw invalid_argument - also on the first call)
        enc = ref_encode(_rand_bytes(r, r.randint(1, 5) if r.random() < 0.15 else r.randint(24, 90), r.randint(0, 1)), flag)
        u = r.random()
        if u < 0.25:
            pos = r.randrange(len(enc))
            enc = enc[:pos] + bytes([r.choice(CORRUPT)]) + enc[pos + 1:]
        elif u < 0.33:
            enc = enc[:-1] if r.random() < 0.5 else enc + b"A"
        return enc
    if op == ROT:
        return bytes(r.choice(b"abcdefghijklmnopqrstuvwxyzABCDEFGHIJKLMNOPQRSTUVWXYZ @[`{\xe1") for _ in range(r.randint(1, 80)))
    if op == NETLOC:
        lo = r.choice((0, 1, 9, 99, 999, 9999, 65532, r.randint(0, 65000)))
        return struct.pack("<II", lo, lo + 4) + r.choice(_COLD_HOSTS)
    n = r.randint(1, 12) if r.random() < 0.3 else r.randint(13, 120)
    if r.random() < 0.5:
        return bytes(r.choice(_ALL_ESCAPED) for _ in range(n))     # every byte needs its own \xHH / %HH
    return _rand_bytes(r, n, 2)


def gen_cold_records(tier, seed, shard, variant):
    """TRIAL records, each followed by its records.  Trial kinds: 'same' (all threads make their first call to the same
    function/mode, each on its own input; cycles through every function/mode), 'pair' (two functions/modes that could
    plausibly share lazily-built state, alternating over the threads), 'mixed' (random function per thread)."""
    r = random.Random("c11-cold-%s-%s-%d-%d" % (variant, tier, seed, shard))
    ntrials = COLD_TRIALS[(variant, tier)]
    recs = []
    same_i = shard * 5
    pair_i = shard * 3
    for i in range(ntrials):
        nthreads = 2 + (i + shard) % 7                    # 2..8
        which = i % 5
        if which in (0, 1, 2):
            kind = "same"
            firsts = [COLD_FM[same_i % len(COLD_FM)]] * nthreads
            same_i += 1
        elif which == 3:
            kind = "pair"
            a, b = COLD_PAIRS[pair_i % len(COLD_PAIRS)]
            pair_i += 1
            firsts = [a if t % 2 == 0 else b for t in range(nthreads)]
        else:
            kind = "mixed"
            firsts = [r.choice(COLD_FM) for _ in range(nthreads)]
        per_thread = r.choice((1, 2, 3))
        body = []
        for k in range(per_thread):
            for t in range(nthreads):
                if k == 0:
                    op, flag = firsts[t]
                else:
                    op, flag = r.choice(COLD_FM + [(DEC, 3), (ENC, 3)])
                body.append(_rec(op, flag, _cold_payload(r, op, flag)))
        # per-thread start delay in pause-loop iterations: half of the trials start all threads together, the others staggered
        if r.random() < 0.5:
            delays = [0] * nthreads
        else:
            top = r.choice((4, 16, 64, 256))
            delays = [r.randint(0, top) for _ in range(nthreads)]
        kb = kind.encode()
        exit_mode = 1 if i % 4 == 0 else 0
        recs.append(_rec(TRIAL, nthreads, struct.pack("<HBB", len(body), exit_mode, len(kb)) + kb + b"".join(struct.pack("<I", d) for d in delays)))
        recs += body
    return recs


def _gen_cold_shard(job):
    path, tier, seed, shard, variant = job
    recs = gen_cold_records(tier, seed, shard, variant)
    with open(path + ".tmp", "wb") as f:
        f.write(b"C11C" + struct.pack("<I", len(recs)))
        f.write(b"".join(recs))
    os.replace(path + ".tmp", path)
    return len(recs)


def _cold_key(key):
    """judge key -> key of the cold-start stage: function and law only (alphabet / remainder / padding shape do not matter here)."""
    return "cold-start:" + ":".join(key.split(":")[:2])


def stage_cold(ctx, st):
    from vf import driver
    self_test()
    variant = st.get("variant", "asan")
    nshards = COLD_SHARDS[variant]
    tag = st.get("tag", "c11-cold")
    workdir, tier, seed = ctx["workdir"], ctx["tier"], int(ctx["seed"])
    cbase = os.path.join(workdir, "c11_coldcases_" + variant)
    obase = os.path.join(workdir, "c11_coldobs_" + variant)
    jobs = [("%s.%d.bin" % (cbase, s), tier, seed, s, variant) for s in range(nshards)]
    with ProcessPoolExecutor(max_workers=nshards) as ex:
        nrecs = list(ex.map(_gen_cold_shard, jobs))
    merged = driver.run_harness_stage(ctx, {"name": "c11_cold", "variant": variant, "shards": (nshards, nshards), "tag": tag,
                                            "args": ["cases=" + cbase, "obs=" + obase], "timeout": (900, 7200)})
    died = bool(merged["violations"]) or ctx.get("only_shard") is not None
    shards = [ctx["only_shard"]] if ctx.get("only_shard") is not None else list(range(nshards))
    shards = [s for s in shards if s < nshards]
    jjobs = [("%s.%d.bin" % (cbase, s), "%s.%d.bin" % (obase, s), died) for s in shards]
    with ProcessPoolExecutor(max_workers=nshards) as ex:
        judged = list(ex.map(judge_shard, jjobs))
    for s, (r, truncated) in zip(shards, judged):
        for v in r["violations"]:
            v["key"] = _cold_key(v["key"])              # a first call in a fresh process, made while other threads made theirs
            v["meta"] = {"stage": tag, "shard": s, "nshards": nshards,
                         "cmd": "python: vf.oracles.c11.judge_shard on the results of the concurrent first calls (harness/c11_cold.cc)"}
        vc = {}
        for k, n in r["violation_counts"].items():
            vc[_cold_key(k)] = vc.get(_cold_key(k), 0) + n
        r["violation_counts"] = vc
        ncls = sum(v for k, v in r["classes"].items() if not k.startswith(("trial:", "custom-alphabet:")))
        r["classes"] = {"first-calls-judged-by-python": ncls,
                        "custom-alphabet-perturbers": sum(v for k, v in r["classes"].items() if k.startswith("custom-alphabet:"))}
        r["samples"] = []
        driver.merge(merged, r)
    merged["counters"]["cold_case_records"] = sum(nrecs)
    merged["violations"].sort(key=lambda v: (v["key"], len(v.get("case", ""))))
    return merged


# ------------------------------------------------------------------------------------------------
# prior-history stage: what a C11 function returns must not depend on what the same thread did earlier with phosg's
# shared helpers (the escapers build their output from string_printf pieces).  harness/c11.cc mode=hist runs, for every
# prior of the shared catalogue (spread over the shards: index % nshards == shard) plus a seeded sample of two-step
# histories: fresh thread -> prior -> every record of the shard's mini-workload, and names the priors it ran in
# <obs>.priors.<shard>.txt; the observation log holds the fields of all passes one after the other.

HIST_SHARDS = 16
_HIST_LONG = (63, 64, 65, 100, 127, 128, 129, 255, 256, 257, 300, 1000, 5000)
_VERBATIM = b"abcdefghijklmnopqrstuvwxyzABCDEFGHIJKLMNOPQRSTUVWXYZ0123456789"
_CTRL_ESCAPED = bytes(c for c in range(0x20) if c not in (7, 8, 9, 10, 11, 12, 13)) + b"\x7f"   # \xHH / %HH in every mode


def _hist_lens(shard, j):
    """Input lengths for function number j in this shard: over the 16 shards every length 0..40 occurs for every function."""
    v = {0, 1, 3} | {(shard + 16 * k + 5 * j) % 41 for k in range(3)} | {_HIST_LONG[(shard + j) % len(_HIST_LONG)]}
    return sorted(v)


def gen_hist_records(tier, seed, shard):
    r = random.Random("c11-hist-%s-%d-%d" % (tier, seed, shard))
    recs = []
    j = 0
    for flag in (0, 1):
        for i, n in enumerate(_hist_lens(shard, j)):
            recs.append((n, _rec(ENC, flag, _rand_bytes(r, n, i % 2))))          # encode (ptr, string) + decode back (ptr, string)
        j += 1
        for i, n in enumerate(_hist_lens(shard, j)):
            enc = ref_encode(_rand_bytes(r, n, (i + 1) % 2), flag)
            recs.append((len(enc), _rec(DEC, flag, enc)))
            if i in (2, 4) and enc:                                              # must still throw invalid_argument
                pos = r.randrange(len(enc))
                bad = enc[:pos] + bytes([r.choice((0x21, 0x00, 0x80, 0x2E))]) + enc[pos + 1:] if i == 2 else enc[:-1]
                recs.append((len(bad), _rec(DEC, flag, bad)))
        j += 1
    letters = b"abcdefghijklmnopqrstuvwxyzABCDEFGHIJKLMNOPQRSTUVWXYZ @[`{\xe1"
    for i, n in enumerate(_hist_lens(shard, j)):
        recs.append((n, _rec(ROT, 0, bytes(r.choices(letters, k=n)) if i % 2 else r.randbytes(n))))
    j += 1
    for op, flag in ((URL, 0), (URL, 1), (CTRL, 0), (CTRL, 1), (QUOTES, 0)):
        lens = _hist_lens(shard, j)
        j += 1
        for i, n in enumerate(lens + [33, 37]):
            style = 0 if i == len(lens) else 1 if i == len(lens) + 1 else i % 3
            if style == 0:      # every byte needs its own \xHH / %HH piece
                data = bytes(r.choices(_CTRL_ESCAPED if (op == CTRL and flag == 0) or i % 2 else _ALL_ESCAPED, k=n))
            elif style == 1:    # nothing to escape
                data = bytes(r.choices(_VERBATIM, k=n))
            else:
                data = _rand_bytes(r, n, 2)
            recs.append((n, _rec(op, flag, data)))
    hosts = [b"a", b"example.com", b"h" * 15, b"h\xc3\xb6st.\xff\x80.x" + b"y" * (shard % 8), b"my-host.sub-domain.example.org", b"h" * (250 + shard % 8)]
    for i in range(4):
        h = hosts[(shard + i) % len(hosts)]
        lo = (0, 8, 98, 998, 9998, 65533)[(shard + 2 * i) % 6]
        recs.append((len(h), _rec(NETLOC, 0, struct.pack("<II", lo, lo + 3) + h)))
    recs.sort(key=lambda t: t[0])             # short to long; functions interleaved (stable)
    return [b for _, b in recs]


def _gen_hist_shard(job):
    path, tier, seed, shard = job
    recs = gen_hist_records(tier, seed, shard)
    with open(path + ".tmp", "wb") as f:
        f.write(b"C11C" + struct.pack("<I", len(recs)))
        f.write(b"".join(recs))
    os.replace(path + ".tmp", path)
    return len(recs)


def _expand_hist_cases(cases_path, priors_path, out_path):
    """Case file of what the harness executed: for every pass it names ("family TAB prior TAB variant"), a PRIOR record
    followed by the shard's records in the order of that variant (0: escape_url records first, 1: escape_controls /
    escape_quotes records first; the others after them, each group in file order)."""
    with open(cases_path, "rb") as f:
        cd = f.read()
    nrec = struct.unpack_from("<I", cd, 4)[0]
    recs = []
    p = 8
    for _ in range(nrec):
        op, flag, n = struct.unpack_from("<BBI", cd, p)
        recs.append((op, cd[p:p + 6 + n]))
        p += 6 + n
    heads = {0: (URL,), 1: (CTRL, QUOTES)}
    bodies = {v: b"".join(b for op, b in recs if op in h) + b"".join(b for op, b in recs if op not in h) for v, h in heads.items()}
    try:
        with open(priors_path, "rb") as f:
            lines = [ln for ln in f.read().split(b"\n") if ln]
    except OSError:
        lines = []
    out = []
    for ln in lines:
        fam, name, variant = ln.split(b"\t")
        out.append(_rec(PRIOR, 0, fam + b"\0" + name + b" (variant %d)" % int(variant)) + bodies[int(variant)])
    with open(out_path, "wb") as f:
        f.write(b"C11C" + struct.pack("<I", len(lines) * (nrec + 1)) + b"".join(out))
    return len(lines)


def stage_hist(ctx, st):
    from vf import driver
    self_test()
    nshards = HIST_SHARDS
    tag = st.get("tag", "c11-hist")
    workdir, tier, seed = ctx["workdir"], ctx["tier"], int(ctx["seed"])
    cbase = os.path.join(workdir, "c11_histcases")
    obase = os.path.join(workdir, "c11_histobs")
    jobs = [("%s.%d.bin" % (cbase, s), tier, seed, s) for s in range(nshards)]
    nrecs = [_gen_hist_shard(j) for j in jobs]
    merged = driver.run_harness_stage(ctx, {"name": "c11", "variant": "asan", "shards": (nshards, nshards), "tag": tag,
                                            "args": ["mode=hist", "cases=" + cbase, "obs=" + obase], "timeout": (600, 3600)})
    died = bool(merged["violations"]) or ctx.get("only_shard") is not None
    shards = [ctx["only_shard"]] if ctx.get("only_shard") is not None else list(range(nshards))
    shards = [s for s in shards if s < nshards]
    npriors = 0
    jjobs = []
    for s in shards:
        xp = "%s.expanded.%d.bin" % (cbase, s)
        npriors += _expand_hist_cases("%s.%d.bin" % (cbase, s), "%s.priors.%d.txt" % (obase, s), xp)
        jjobs.append((xp, "%s.%d.bin" % (obase, s), died))
    with ProcessPoolExecutor(max_workers=min(nshards, os.cpu_count() or 4)) as ex:
        judged = list(ex.map(judge_shard, jjobs))
    for s, (r, truncated) in zip(shards, judged):
        for v in r["violations"]:
            v["meta"] = {"stage": tag, "shard": s, "nshards": nshards,
                         "cmd": "python: vf.oracles.c11.judge_shard on the passes of harness/c11.cc mode=hist (one pass per prior)"}
        ncls = sum(v for k, v in r["classes"].items() if not k.startswith("prior:"))
        r["classes"] = dict({k: v for k, v in r["classes"].items() if k.startswith("prior:")}, **{"results-judged-by-python": ncls})
        r["samples"] = []
        driver.merge(merged, r)
    merged["counters"]["hist_case_records_per_pass"] = sum(nrecs)
    merged["counters"]["hist_passes_judged"] = npriors
    merged["violations"].sort(key=lambda v: (v["key"], len(v.get("case", ""))))
    return merged
