"""C12 helper stage: compile all harness build configurations of the current tier concurrently.

LRUSet/LRUMap are header-only, so vf/specs/c12.py compiles the same harness TU under several flag sets
(NDEBUG on/off, -O0/-O2/-O3, with/without sanitizers).  The driver builds a stage's binary when the stage
starts, i.e. one after the other; this stage only warms the content-addressed cache (vf/build.py keys a
harness binary by tree hash + variant + extra_cxx + ...) so that the wall time of a run after a header change
is one compilation, not four.  It observes nothing and judges nothing.
"""
from concurrent.futures import ThreadPoolExecutor

from vf import build


def prebuild(ctx, st):
    cfgs = {}
    for s in ctx["spec"]["stages"]:
        if s.get("kind", "harness") != "harness":
            continue
        tiers = s.get("tiers")
        if tiers and ctx["tier"] not in tiers:
            continue
        k = (s["name"], s.get("variant", "asan"), tuple(s.get("extra_cxx", ())), tuple(s.get("extra_link", ())),
             tuple(s.get("sources") or ()), bool(s.get("link_lib", True)))
        cfgs[k] = s

    def one(k):
        name, variant, cxx, link, sources, link_lib = k
        return build.build_harness(name, variant, extra_cxx=cxx, extra_link=link, sources=list(sources) or None,
                                   link_lib=link_lib)

    with ThreadPoolExecutor(max_workers=len(cfgs)) as ex:
        exes = list(ex.map(one, list(cfgs)))  # a BuildError propagates: the driver reports the run as inconclusive
    if len(set(exes)) != len(cfgs):
        raise build.BuildError("c12: %d build configurations produced %d distinct binaries (cache key ignores the flags?)"
                               % (len(cfgs), len(set(exes))))
    return {"evaluations": 0, "classes": {}, "counters": {"harness_build_configurations": len(cfgs)}, "violations": [],
            "violation_counts": {}, "samples": [], "extra": {"binaries": len(set(exes))}}
