"""C17 — independent expectations computed by CPython, handed to harness/c17.cc as a case file.

* floating-point texts: a literal grammar  [-] (D+ [. D*] | . D+) [ (e|E) [+-] D+ ]  enumerated from small
  component tables; value reference = float(text) (CPython's correctly rounded dtoa), shipped as the 8 raw
  bytes of the double.  Texts outside the grammar from a fixed garbage list must be rejected.  inf/nan/hex
  floats/leading '+'/blanks are marked ANY (the statement is silent; only "present => return or
  invalid_argument" is checked).
* command lines: the *unambiguous shell subset* (words, blanks, "..." with \\" and \\\\ only, '...' without
  backslash, backslash-escaped printable characters outside quotes, no token that is empty after quote
  removal); expected tokens = shlex.split(s) (posix).  Enumerated exhaustively over a 7-letter alphabet up to
  a small length, plus seeded structured lines whose tokens the generator knows (shlex must agree with the
  generator, otherwise the case is dropped and counted).

* byte alphabet (round 6): command lines are BYTE strings.  They are handled here as latin-1 text (one character
  per byte, so every byte survives shlex unchanged) and shipped as hex of the latin-1 bytes.  Bytes >= 0x80 are
  ordinary word characters for a shell: valid UTF-8 sequences of 2/3/4 bytes, lone continuation bytes, lone lead
  bytes, 0x80 and 0xFF occur bare, inside '...', inside "...", after a backslash, next to quotes and blanks, in
  positionals, option names, option values and flag groups.  NUL bytes are never generated (not demanded).

One case per line:  F <hex text> <16 hex digits | REJECT | ANY>      S <hex cmdline> <hex,hex,...| ->
"""
import itertools
import os
import random
import re
import shlex
import struct

FLOAT_RE = re.compile(r"-?([0-9]+\.?[0-9]*|\.[0-9]+)([eE][+-]?[0-9]+)?")

SIGNS = ["", "-"]
INTS = ["", "0", "1", "7", "10", "123", "007", "4294967296", "18446744073709551616", "9007199254740993",
        "123456789012345678901234567890", "179769313486231570000"]
FRACS = ["", ".", ".0", ".5", ".25", ".1", ".000", ".999999999999999999999", ".0000000001", ".3333333333333333"]
EXPS = ["", "e0", "E0", "e1", "e+1", "e-1", "E+10", "e-10", "e22", "e23", "e308", "e309", "e-308", "e-323", "e-324",
        "e-400", "e400", "e0001", "E-0"]

FLOAT_GARBAGE = ["", "x", "5x", "0x", "--5", "5 ", "1e", "1.5.2", "1e+", "1e-", "1ee5", "1e5.5", "1.e", ".", "-", "-.",
                 "e", "e5", ".e5", "1,5", "1 2", "1.5f", "5L", "1.0.0", "1e5e5", "1d5", "--1.5", "-+1", "1-", "1.5-",
                 "$1", "1.5\t", "1.5\n", "1_0", "1e1_0", "1.5 x", "0xg", "1.5e", "1.5E+", "..5", "5..", "-e5",
                 "1e 5", "1 e5", "- 1", "1.-5", "one", "1/2", "1.5%",
                 # bytes >= 0x80 (UTF-8 sequences; \udcXX = the lone byte XX through surrogateescape): never part of a literal
                 "1.5\u00e9", "\u20ac5", "5\u20ac", "1\u00a02", "1.5\u00a0", "\u00a01.5", "\udcff", "1.5\udc80", "\udcff1.5", "1e\udcff5", "1\udc805",
                 "\uff11.5", "1.\uff15", "1.5e\u00b2", "\u00e9", "-\u00e9", "-1\udca9", "1\U0001f6002", ".\udcc3", "1e+\u00e9"]
FLOAT_ANY = ["inf", "-inf", "Infinity", "nan", "NAN", "-nan", "0x1p3", "0x1.8p1", "0X10", "+1.5", " 1.5", "+.5e1",
             "infinity", "nan(1)", "0x.8p1", "0x1.8", "0x10.", "-0x1p-3"]


def _hex(s):
    return s.encode("utf-8", "surrogateescape").hex() if isinstance(s, str) else s.hex()


def _hexb(s):
    """hex of a command line / token held as latin-1 text (one character per byte)"""
    return s.encode("latin-1").hex()


# high-byte units (latin-1 text of the raw bytes): UTF-8 of e-acute, e-diaeresis, euro sign, U+1F600, CJK; lone
# continuation byte, lone lead byte, 0x80, 0xFF, 0xFE 0xFF, NEL (0x85) and NBSP (0xA0) which are blanks in some
# 8-bit/Unicode tables but ordinary bytes for a shell
HI_UNITS = ["\xc3\xa9", "\xc3\xab", "\xe2\x82\xac", "\xf0\x9f\x98\x80", "\xe6\x97\xa5", "\xa9", "\xc3", "\x80", "\xff",
            "\xfe\xff", "\x85", "\xa0", "\xbf", "\xc0\x80", "\xed\xa0\x80"]


def float_cases(tier, rnd):
    out = []
    stats = {"float_valid": 0, "float_reject": 0, "float_any": 0}
    seen = set()

    def emit(t):
        if t in seen:
            return
        seen.add(t)
        if FLOAT_RE.fullmatch(t):
            v = float(t)  # must not raise for the grammar
            out.append("F\t%s\t%s" % (_hex(t), struct.pack(">d", v).hex()))
            stats["float_valid"] += 1
        else:
            out.append("F\t%s\tREJECT" % _hex(t))
            stats["float_reject"] += 1

    for s, i, f, e in itertools.product(SIGNS, INTS, FRACS, EXPS):
        emit(s + i + f + e)
    for t in FLOAT_GARBAGE:
        assert not FLOAT_RE.fullmatch(t), t
        emit(t)
    for t in FLOAT_ANY:
        out.append("F\t%s\tANY" % _hex(t))
        stats["float_any"] += 1
    # seeded decimal strings with many digits / extreme exponents (exercise rounding and range)
    n = 1500 if tier == "quick" else 40000
    for _ in range(n):
        nd = rnd.choice([1, 2, 5, 9, 15, 16, 17, 18, 19, 20, 25, 40])
        digits = "".join(rnd.choice("0123456789") for _ in range(nd))
        cut = rnd.randrange(0, nd + 1)
        mant = digits[:cut] + ("." if rnd.random() < 0.7 else "") + (digits[cut:] if rnd.random() < 0.9 else "")
        if not re.search(r"\d", mant):
            mant = "0" + mant
        ex = ""
        if rnd.random() < 0.6:
            ex = rnd.choice("eE") + rnd.choice(["", "+", "-"]) + str(rnd.choice([0, 1, 5, 15, 22, 23, 37, 38, 39, 44, 45, 46, 100,
                                                                                 290, 300, 307, 308, 309, 310, 320, 323, 324, 325, 400]))
        emit(rnd.choice(SIGNS) + mant + ex)
    return out, stats


# ---- command lines ---------------------------------------------------------------------------------

def in_subset(s):
    """Recogniser of the unambiguous shell subset (independent of shlex and of phosg)."""
    i, state, n = 0, None, len(s)
    while i < n:
        ch = s[i]
        if state is None:
            if ch == "\\":
                if i + 1 >= n or not (" " <= s[i + 1] <= "~" or s[i + 1] >= "\x80"):
                    return False
                i += 2
                continue
            if ch in "\"'":
                state = ch
        elif state == '"':
            if ch == "\\":
                if i + 1 >= n or s[i + 1] not in '"\\':
                    return False
                i += 2
                continue
            if ch == '"':
                state = None
        else:
            if ch == "\\":
                return False
            if ch == "'":
                state = None
        i += 1
    return state is None


WORD_CHARS = "abcxyzKV0159-=.,:/_+@%"


def _is_word(c):
    return c in WORD_CHARS or c >= "\x80"


def quote_token(tok, rnd):
    """Spell tok in shell syntax using a random mix of quoting styles, segment by segment.
    Bytes >= 0x80 are word characters (bare style), and are also produced quoted and backslash-escaped."""
    out = []
    i = 0
    while i < len(tok):
        seglen = rnd.randint(1, max(1, len(tok) - i))
        seg = tok[i:i + seglen]
        i += seglen
        style = rnd.randrange(4)
        if style == 0 and all(_is_word(c) for c in seg):
            out.append(seg)
        elif style == 1 and "'" not in seg and "\\" not in seg:
            out.append("'" + seg + "'")
        elif style == 2:
            out.append('"' + seg.replace("\\", "\\\\").replace('"', '\\"') + '"')
        else:
            # backslash style: non-word characters must be escaped; high bytes are escaped half of the time
            out.append("".join(c if (c in WORD_CHARS or (c >= "\x80" and rnd.random() < 0.5)) else "\\" + c for c in seg))
    return "".join(out)


def _emit_line(out, stats, s, toks, key):
    """toks: the generator's own token list (None = enumerated string, shlex alone decides)."""
    if not in_subset(s):
        stats["cmdline_outside_subset"] += 1
        return False
    try:
        sh = shlex.split(s, posix=True)
    except ValueError:
        stats["cmdline_generator_disagrees_with_shlex"] += 1
        return False
    if toks is not None and sh != toks:
        stats["cmdline_generator_disagrees_with_shlex"] += 1
        return False
    if any(t == "" for t in sh):
        stats["cmdline_empty_token_excluded"] += 1
        return False
    out.append("S\t%s\t%s" % (_hexb(s), ",".join(_hexb(t) for t in sh) or "-"))
    stats[key] += 1
    return True


def cmdline_highbyte_cases(tier, rnd):
    """Command lines whose tokens contain bytes >= 0x80 (latin-1 text = raw bytes) in every syntactic position."""
    out = []
    stats = {"cmdline_outside_subset": 0, "cmdline_empty_token_excluded": 0, "cmdline_generator_disagrees_with_shlex": 0,
             "cmdline_hi_enumerated": 0, "cmdline_hi_contexts": 0, "cmdline_hi_structured": 0}
    quick = tier == "quick"
    # (1) exhaustive: all strings up to length 4 / 5 over the shell alphabet + four high bytes (a 2-byte UTF-8 pair,
    # 0x80, 0xFF) that contain at least one high byte and lie in the unambiguous subset
    alphabet = ["a", "-", "=", " ", '"', "'", "\\", "\xc3", "\xa9", "\x80", "\xff"]
    for ln in range(1, (4 if quick else 5) + 1):
        for tup in itertools.product(alphabet, repeat=ln):
            if not any(c >= "\x80" for c in tup):
                continue
            _emit_line(out, stats, "".join(tup), None, "cmdline_hi_enumerated")
    # (2) every high-byte unit x every syntactic context x every token role (the generator knows the tokens)
    contexts = [
        ("bare", lambda u: u),
        ("sq", lambda u: "'" + u + "'"),
        ("dq", lambda u: '"' + u + '"'),
        ("bs", lambda u: "".join("\\" + c for c in u)),
        ("bs-first", lambda u: "\\" + u),
        ("sq-mid", lambda u: "'x" + u + "y'"),
        ("dq-mid", lambda u: '"x ' + u + ' y"'),
        ("after-sq", lambda u: "'q'" + u),
        ("before-dq", lambda u: u + '"q"'),
        ("dq-escapes", lambda u: '"\\"' + u + '\\\\"'),
        ("split-across-quotes", lambda u: (u[0] + "'" + u[1:] + "'") if len(u) > 1 else ("''" + u)),
    ]
    ctx_token = {"bare": "%s", "sq": "%s", "dq": "%s", "bs": "%s", "bs-first": "%s", "sq-mid": "x%sy", "dq-mid": "x %s y",
                 "after-sq": "q%s", "before-dq": "%sq", "dq-escapes": '"%s\\', "split-across-quotes": "%s"}
    roles = [  # (name, shell text with {} for the spelled unit, token with {} for the unit's bytes)
        ("positional", "{}", "{}"),
        ("positional-prefix", "{}5", "{}5"),
        ("positional-suffix", "Zo{}", "Zo{}"),
        ("option-name", "--caf{}=v", "--caf{}=v"),
        ("option-name-only", "--{}", "--{}"),
        ("option-value", "--k={}", "--k={}"),
        ("option-value-numeric", "--n=1{}2", "--n=1{}2"),
        ("flag-group", "-v{}q", "-v{}q"),
    ]
    blanks = [" ", "\t", "  ", " \t"]
    for u in HI_UNITS:
        for cname, spell in contexts:
            if cname == "split-across-quotes" and len(u) == 1:
                continue  # '' next to the byte: the pair of quotes adds nothing, the token is not empty
            for rname, rshell, rtok in roles:
                tok = rtok.replace("{}", ctx_token[cname] % u)
                txt = rshell.replace("{}", spell(u))
                before = rnd.choice(["", "pos0", "--x=1", "\xc3\xa9t\xc3\xa9", "-f"])
                after = rnd.choice(["", "last", "--y", "'a b'", "\xff"])
                toks = ([before] if before else []) + [tok] + ([shlex.split(after)[0]] if after else [])
                b = rnd.choice(blanks)
                s = rnd.choice(["", "", " "]) + b.join(x for x in [before, txt, after] if x) + rnd.choice(["", "", "\t"])
                _emit_line(out, stats, s, toks, "cmdline_hi_contexts")
    # (3) seeded structured lines: natural-language tokens, mixed quoting per segment
    pool_pos = ["Zo\xc3\xab", "\xe2\x82\xac5", "5\xe2\x82\xac", "\xff", "\x80\x81", "a\xa9b", "\xe6\x97\xa5\xe6\x9c\xac", "cr\xc3\xa8me br\xc3\xbbl\xc3\xa9e",
                "\xf0\x9f\x98\x80", "it's \xc3\xa9t\xc3\xa9", 'dit "\xc3\xa7a"', "\xa0", "x\x85y", "\xc3", "pos0", "300", "-", "--", "\xff-x", "na\xc3\xafve=1"]
    pool_opt = ["--caf\xc3\xa9", "--caf\xc3\xa9=cr\xc3\xa8me br\xc3\xbbl\xc3\xa9e", "--caf", "--caf=v", "--\xc3\xa9", "--\xc3\xa9=", "--k=\xff", "--\xff\xfe=v", "--k=\xe2\x82\xac5",
                "--n=1\xc2\xa02", "--n=\xef\xbc\x95", "--na\xc3\xafve=o\xc3\xb9 \xc3\xa7a", "--k=\x80", "--\x80", "--k=v=\xc3\xa9", "--count=0x7FFF", "-vq", "-\xc3\xa9", "-v\xff",
                "-\x80x", "--named2=value2", "--msg=dit \"\xc3\xa7a\"", "--k=it's \xc3\xa9"]
    n = 1500 if quick else 30000
    for _ in range(n):
        toks = [rnd.choice(pool_pos if rnd.random() < 0.45 else pool_opt) for _ in range(rnd.randint(1, 6))]
        if rnd.random() < 0.3:
            units = list(WORD_CHARS) + [" ", " ", '"', "'", "\\"] + HI_UNITS * 2
            toks = ["".join(rnd.choice(units) for _ in range(rnd.randint(1, 5))) for _ in range(rnd.randint(1, 4))]
        if not any(c >= "\x80" for t in toks for c in t):
            continue
        s = rnd.choice(["", "", " ", "\t"]) + rnd.choice(blanks).join(quote_token(t, rnd) for t in toks) + rnd.choice(["", "", " ", "\t "])
        _emit_line(out, stats, s, toks, "cmdline_hi_structured")
    return out, stats


def cmdline_cases(tier, rnd):
    out = []
    stats = {"cmdline_enumerated": 0, "cmdline_outside_subset": 0, "cmdline_empty_token_excluded": 0,
             "cmdline_structured": 0, "cmdline_generator_disagrees_with_shlex": 0}
    alphabet = ["a", "-", "=", " ", '"', "'", "\\"]
    maxlen = 5 if tier == "quick" else 6
    for ln in range(0, maxlen + 1):
        for tup in itertools.product(alphabet, repeat=ln):
            s = "".join(tup)
            if not in_subset(s):
                stats["cmdline_outside_subset"] += 1
                continue
            toks = shlex.split(s, posix=True)
            if any(t == "" for t in toks):
                stats["cmdline_empty_token_excluded"] += 1
                continue
            out.append("S\t%s\t%s" % (_hexb(s), ",".join(_hexb(t) for t in toks) or "-"))
            stats["cmdline_enumerated"] += 1
    # structured: the generator knows the tokens
    pool_pos = ["pos0", "a", "file.txt", "300", "4.0", "-", "--", "a b", "it's", 'say "hi"', "back\\slash", "x=y", "1,2", "tab\there"]
    pool_opt = ["--named1", "--named2=value2", "--int3=40000", "--float4=2.0", "--k=", "--k=v", "--k=a b", "--k=v=w", "--name=it's",
                "-x", "-xy", "-v", "--k=-5", "--k=0x10", '--msg=say "hi"', "--path=/a/b c/d", "--k=\\"]
    n = 1500 if tier == "quick" else 40000
    for _ in range(n):
        toks = [rnd.choice(pool_pos if rnd.random() < 0.45 else pool_opt) for _ in range(rnd.randint(0, 7))]
        if rnd.random() < 0.3:
            toks = ["".join(rnd.choice(WORD_CHARS + "  \"'\\") for _ in range(rnd.randint(1, 6))) for _ in range(rnd.randint(1, 4))]
        blanks = [" ", "  ", "\t", " \t "]
        s = rnd.choice(["", "", " ", "\t"]) + rnd.choice(blanks).join(quote_token(t, rnd) for t in toks) + rnd.choice(["", "", " ", "\t "])
        if not in_subset(s):
            stats["cmdline_outside_subset"] += 1
            continue
        try:
            sh = shlex.split(s, posix=True)
        except ValueError:
            stats["cmdline_generator_disagrees_with_shlex"] += 1
            continue
        if sh != toks:
            stats["cmdline_generator_disagrees_with_shlex"] += 1
            continue
        if any(t == "" for t in sh):
            stats["cmdline_empty_token_excluded"] += 1
            continue
        out.append("S\t%s\t%s" % (_hexb(s), ",".join(_hexb(t) for t in sh) or "-"))
        stats["cmdline_structured"] += 1
    hi_lines, hi_stats = cmdline_highbyte_cases(tier, random.Random(rnd.getrandbits(64)))
    out += hi_lines
    for k, v in hi_stats.items():
        stats[k] = stats.get(k, 0) + v
    # the unit test's own command line
    s = "pos0 --named1 300 --named2=value2 4.0 --int3=40000 --float4=2.0"
    out.append("S\t%s\t%s" % (_hexb(s), ",".join(_hexb(t) for t in shlex.split(s))))
    return out, stats


def write_cases(workdir, tier, seed):
    rnd = random.Random(0xC17 * 1000003 + int(seed))
    f_lines, f_stats = float_cases(tier, rnd)
    s_lines, s_stats = cmdline_cases(tier, rnd)
    lines = f_lines + s_lines
    # interleave deterministically so that shards (index mod nshards) get a similar mix
    rnd2 = random.Random(int(seed) + 17)
    rnd2.shuffle(lines)
    path = os.path.join(workdir, "c17_cases.txt")
    with open(path + ".tmp", "w") as f:
        f.write("\n".join(lines) + "\n")
    os.replace(path + ".tmp", path)
    stats = dict(f_stats)
    stats.update(s_stats)
    return path, stats


def args_fn(ctx):
    """Called by the driver before the shards start; returns extra --arg values for the harness."""
    path, stats = write_cases(ctx["workdir"], ctx["tier"], ctx["seed"])
    ctx.setdefault("c17_case_stats", {}).update(stats)
    return ["cases=" + path]
