"""C09 — independent Python oracles.

* reference parser for the data-string syntax ($ # ## ### #### % %% "..." '...' // /* */ ? and hex nybbles),
  used to judge grammar-generated texts executed by harness/c09.cc (--arg only=io --arg cases=...)
* hex-dump decoder (address column, 16 hex cells, ASCII column, float/double columns, SGR escapes) used to judge
  the dump log written by the same harness (--arg log=...)
* bounded libFuzzer run on parse_data_string (totality only)

Nothing here looks at phosg's source; the semantics are those of the property statement and the PrintDataFlags comments.
"""
import math
import os
import random
import re
import struct
import sys
from concurrent.futures import ProcessPoolExecutor
import decimal
from decimal import Decimal
from fractions import Fraction

TWO64 = 1 << 64
TOP_LINE = TWO64 - 16

# PrintDataFlags
USE_COLOR, PRINT_ASCII, PRINT_FLOAT, PRINT_DOUBLE, REVERSE_ENDIAN = 0x1, 0x2, 0x4, 0x8, 0x10
COLLAPSE, SKIP_SEP, DISABLE_COLOR = 0x20, 0x40, 0x80
OFF8, OFF16, OFF32, OFF64, BIG_ENDIAN, LITTLE_ENDIAN = 0x100, 0x200, 0x400, 0x800, 0x1000, 0x2000
FLAG_NAMES = [(USE_COLOR, "USE_COLOR"), (PRINT_ASCII, "PRINT_ASCII"), (PRINT_FLOAT, "PRINT_FLOAT"),
              (PRINT_DOUBLE, "PRINT_DOUBLE"), (REVERSE_ENDIAN, "REVERSE_ENDIAN_FLOATS"), (COLLAPSE, "COLLAPSE_ZERO_LINES"),
              (SKIP_SEP, "SKIP_SEPARATOR"), (DISABLE_COLOR, "DISABLE_COLOR"), (OFF8, "OFFSET_8_BITS"),
              (OFF16, "OFFSET_16_BITS"), (OFF32, "OFFSET_32_BITS"), (OFF64, "OFFSET_64_BITS"),
              (BIG_ENDIAN, "BIG_ENDIAN_FLOATS"), (LITTLE_ENDIAN, "LITTLE_ENDIAN_FLOATS")]


class OracleError(Exception):
    """The oracle itself is inconsistent (generator and reference parser disagree) -> inconclusive, never a verdict."""


# =================================================================================================
# 1. data-string syntax: reference parser

_INT_RE = re.compile(rb"[ \t\n\v\f\r]*([+-]?)(0[xX][0-9a-fA-F]+|[0-9]+)")
_FLT_RE = re.compile(rb"[ \t\n\v\f\r]*([+-]?(?:[0-9]+\.?[0-9]*(?:[eE][+-]?[0-9]+)?|\.[0-9]+(?:[eE][+-]?[0-9]+)?|[iI][nN][fF]))")
_SIMPLE_ESC = {ord("n"): 10, ord("r"): 13, ord("t"): 9}


def f32_bits(text):
    """Correctly rounded (nearest, ties to even) binary32 image of a decimal literal, computed exactly."""
    t = text.strip().lower()
    if t.lstrip("+-") == "inf":
        return 0xFF800000 if t.startswith("-") else 0x7F800000
    d = Decimal(t)
    sign = 0x80000000 if d.is_signed() else 0
    a = abs(Fraction(d))
    if a == 0:
        return sign
    e = a.numerator.bit_length() - a.denominator.bit_length()
    if Fraction(2) ** e > a:
        e -= 1
    elif Fraction(2) ** (e + 1) <= a:
        e += 1
    qexp = max(e, -126) - 23
    m = round(a / Fraction(2) ** qexp)  # Python rounds Fractions half-to-even
    if m == 1 << 24:
        m >>= 1
        qexp += 1
    if m == 0:
        return sign
    if m >= 1 << 23:
        ef = qexp + 23 + 127
        if ef >= 255:
            return sign | 0x7F800000
        return sign | (ef << 23) | (m - (1 << 23))
    return sign | m  # subnormal


# libc's own strtof/strtod (no phosg involved) as a self-check of the exact arithmetic above: a disagreement makes the
# run inconclusive, it never decides a verdict.
try:
    import ctypes
    _libc = ctypes.CDLL(None)
    _libc.strtof.restype = ctypes.c_float
    _libc.strtof.argtypes = [ctypes.c_char_p, ctypes.c_void_p]
    _libc.strtod.restype = ctypes.c_double
    _libc.strtod.argtypes = [ctypes.c_char_p, ctypes.c_void_p]
except Exception:  # pragma: no cover
    _libc = None


def libc_selfcheck(lit, dbl):
    if _libc is None:
        return
    if dbl:
        got = struct.pack("<d", _libc.strtod(lit.encode(), None))
        want = f64_bytes(lit, False)
    else:
        got = struct.pack("<f", _libc.strtof(lit.encode(), None))
        want = f32_bits(lit).to_bytes(4, "little")
    if got != want:
        raise OracleError("reference rounding of %r (%s) is %s but libc gives %s" % (lit, "double" if dbl else "float", want.hex(), got.hex()))


_BIGCTX = decimal.Context(prec=1200)


def exact_decimal(fr):
    """Exact Decimal of a Fraction whose denominator is a power of two."""
    k = fr.denominator.bit_length() - 1
    if fr.denominator != 1 << k:
        raise OracleError("not a dyadic rational")
    return _BIGCTX.multiply(Decimal(fr.numerator * 5 ** k), Decimal(1).scaleb(-k, _BIGCTX))


MIDPOINT_KINDS = ("exact", "nearest-D", "above-D", "below-D", "plus-eps", "minus-eps")


def midpoint_literal(r, dbl):
    """A decimal literal at, or within 1e-17..1e-29 (relative) of, the midpoint of two adjacent floats/doubles.
    Such literals separate a single correct rounding from text->double->float double rounding and from
    truncating conversions. Returns (literal, kind)."""
    if dbl:
        bits = (r.randrange(1023 - 150, 1023 + 150) << 52) | r.getrandbits(52)
        if r.random() < 0.2:
            bits = (bits & ~((1 << 52) - 1)) | r.choice((0, 1, (1 << 52) - 2, (1 << 52) - 1, 1 << 51))
        a = struct.unpack("<d", struct.pack("<Q", bits))[0]
        b = struct.unpack("<d", struct.pack("<Q", bits + 1))[0]
    else:
        bits = (r.randrange(127 - 50, 127 + 60) << 23) | r.getrandbits(23)
        if r.random() < 0.2:
            bits = (bits & ~0x7FFFFF) | r.choice((0, 1, 0x7FFFFE, 0x7FFFFF, 0x400000))
        a = struct.unpack("<f", struct.pack("<I", bits))[0]
        b = struct.unpack("<f", struct.pack("<I", bits + 1))[0]
    m = exact_decimal((Fraction(a) + Fraction(b)) / 2)
    kind = r.choice(MIDPOINT_KINDS)
    D = r.randrange(17, 31)
    if kind == "exact":
        d = m
    elif kind == "nearest-D":
        d = decimal.Context(prec=D, rounding=decimal.ROUND_HALF_EVEN).plus(m)
    elif kind == "above-D":
        d = decimal.Context(prec=D, rounding=decimal.ROUND_UP).plus(m)
    elif kind == "below-D":
        d = decimal.Context(prec=D, rounding=decimal.ROUND_DOWN).plus(m)
    else:
        k = r.randrange(17, 29)
        eps = Decimal(1).scaleb(-k)
        f = (1 + eps) if kind == "plus-eps" else (1 - eps)
        d = decimal.Context(prec=30, rounding=decimal.ROUND_DOWN if kind == "plus-eps" else decimal.ROUND_UP).plus(_BIGCTX.multiply(m, f))
    if r.random() < 0.5:
        d = -d
    lit = format(d, "f") if r.random() < 0.6 else format(d, "e")
    return lit, kind


def f64_bytes(text, big):
    t = text.strip().lower()
    v = float(t)  # CPython's float() is correctly rounded; overflow gives inf like strtod
    return struct.pack(">d" if big else "<d", v)


def ref_parse(t):
    """Returns (data, mask) for a text without NUL bytes."""
    out = bytearray()
    mask = bytearray()
    big = False
    enabled = True
    high = None
    i, n = 0, len(t)

    def emit(b):
        out.extend(b)
        mask.extend((b"\xff" if enabled else b"\x00") * len(b))

    while i < n:
        c = t[i]
        if c == 0x2F and t.startswith(b"//", i):
            j = t.find(b"\n", i)
            i = n if j < 0 else j + 1
        elif c == 0x2F and t.startswith(b"/*", i):
            j = t.find(b"*/", i + 2)
            i = n if j < 0 else j + 2
        elif c == 0x22 or c == 0x27:  # " or '
            wide = c == 0x27
            i += 1
            while i < n and t[i] != c:
                ch = t[i]
                if ch == 0x5C:
                    if i + 1 >= n:
                        return bytes(out), bytes(mask)  # dangling backslash: text ends inside the string
                    ch = t[i + 1]
                    ch = _SIMPLE_ESC.get(ch, ch)
                    i += 2
                else:
                    i += 1
                if wide:
                    emit(struct.pack(">H" if big else "<H", ch))
                else:
                    emit(bytes([ch]))
            i += 1
        elif c == 0x3F:
            enabled = not enabled
            i += 1
        elif c == 0x24:
            big = not big
            i += 1
        elif c == 0x23:
            w = 0
            while w < 4 and i < n and t[i] == 0x23:
                w += 1
                i += 1
            size = 1 << (w - 1)
            m = _INT_RE.match(t, i)
            v = 0
            if m:
                digits = m.group(2)
                end = m.end()
                if digits[:2].lower() == b"0x":
                    v = int(digits[2:], 16)
                elif len(digits) > 1 and digits[:1] == b"0":
                    # C base-0 conversion: a leading 0 means octal and stops at the first non-octal digit
                    mo = re.match(rb"0[0-7]*", digits)
                    v = int(mo.group(0), 8)
                    end = m.start(2) + len(mo.group(0))
                else:
                    v = int(digits)
                i = end
                if v >= TWO64:
                    v = TWO64 - 1
                elif m.group(1) == b"-":
                    v = (-v) % TWO64
            v %= 1 << (8 * size)
            emit(v.to_bytes(size, "big" if big else "little"))
        elif c == 0x25:
            i += 1
            dbl = i < n and t[i] == 0x25
            if dbl:
                i += 1
            m = _FLT_RE.match(t, i)
            lit = "0"
            if m:
                lit = m.group(1).decode()
                i = m.end()
            if dbl:
                emit(f64_bytes(lit, big))
            else:
                emit(f32_bits(lit).to_bytes(4, "big" if big else "little"))
        else:
            v = -1
            if 0x30 <= c <= 0x39:
                v = c - 0x30
            elif 0x41 <= c <= 0x46:
                v = c - 0x41 + 10
            elif 0x61 <= c <= 0x66:
                v = c - 0x61 + 10
            if v >= 0:
                if high is None:
                    high = v
                else:
                    emit(bytes([(high << 4) | v]))
                    high = None
            i += 1
    return bytes(out), bytes(mask)


# -------------------------------------------------------------------------------------------------
# grammar generator: well-formed texts only; builds the expected bytes constructively as well

_WS = [b" ", b" ", b" ", b"\n", b"\t", b"\r\n", b"  "]
_COMMENT_CHARS = b"abcdefghijklmnopqrstuvwxyz 0123456789\"'#$%?\\<>ABCDEF.,;:-+_()[]{}!@^&=~`|\t"


class TextBuilder:
    def __init__(self, rng):
        self.r = rng
        self.text = bytearray()
        self.data = bytearray()
        self.mask = bytearray()
        self.spans = []  # (start, end, item name)
        self.big = False
        self.enabled = True
        self.items = set()

    def emit(self, b, name):
        self.spans.append((len(self.data), len(self.data) + len(b), name))
        self.data.extend(b)
        self.mask.extend((b"\xff" if self.enabled else b"\x00") * len(b))
        self.items.add("%s:%s:%s" % (name, "be" if self.big else "le", "on" if self.enabled else "off"))

    def ws(self, at_least_one=False):
        r = self.r
        k = r.choice((0, 0, 1, 1, 1, 2)) if not at_least_one else r.choice((1, 1, 2))
        for _ in range(k):
            self.text.extend(r.choice(_WS))

    # items ------------------------------------------------------------------------------------
    def hexbytes(self):
        r = self.r
        k = r.choice((1, 1, 2, 3, 4, 8, 17))
        for _ in range(k):
            b = r.choice((0, 0xFF, 0x7F, 0x80, r.randrange(256), r.randrange(256)))
            s = ("%02X" if r.random() < 0.6 else "%02x") % b
            if r.random() < 0.15:
                s = s[0] + r.choice((" ", "\n", "\t")) + s[1]  # white space between the two nybbles
            self.text.extend(s.encode())
            if r.random() < 0.5:
                self.text.extend(b" ")
            self.emit(bytes([b]), "hex")

    def _str_chars(self, wide):
        r = self.r
        q = 0x27 if wide else 0x22
        k = r.choice((0, 1, 1, 2, 3, 5, 8, 20))
        for _ in range(k):
            x = r.random()
            if x < 0.30:
                esc, val = r.choice(((b"\\n", 10), (b"\\r", 13), (b"\\t", 9), (b"\\\"", 0x22), (b"\\'", 0x27),
                                     (b"\\\\", 0x5C), (b"\\\\", 0x5C)))
                yield esc, val
            else:
                if wide or x < 0.8:
                    ch = r.randrange(0x20, 0x7F)
                else:
                    ch = r.choice((9, 10, 13, 0x80, 0xFF, 0x7F, 1, r.randrange(1, 256)))
                if ch == q or ch == 0x5C:
                    ch = 0x41
                yield bytes([ch]), ch

    def dq(self):
        self.text.extend(b'"')
        any_ = False
        for src, val in self._str_chars(False):
            self.text.extend(src)
            self.emit(bytes([val]), "dq-escape" if len(src) == 2 else "dq-char")
            any_ = True
        if not any_:
            self.items.add("dq-empty")
        self.text.extend(b'"')

    def sq(self):
        self.text.extend(b"'")
        for src, val in self._str_chars(True):
            self.text.extend(src)
            self.emit(struct.pack(">H" if self.big else "<H", val), "sq-escape" if len(src) == 2 else "sq-char")
        self.text.extend(b"'")

    def toggle_mask(self):
        self.text.extend(b"?")
        self.enabled = not self.enabled
        self.items.add("mask-toggle")

    def toggle_endian(self):
        self.text.extend(b"$")
        self.big = not self.big
        self.items.add("endian-toggle")

    def integer(self):
        r = self.r
        w = r.choice((1, 2, 3, 4))
        size = 1 << (w - 1)
        bits = 8 * size
        form = r.choice(("dec", "dec", "neg", "hex", "edge"))
        if form == "neg":
            v = -r.choice((1, 1 << (bits - 1), r.randrange(1, (1 << (bits - 1)) + 1)))
            lit = str(v)
        elif form == "hex":
            v = r.choice((0, (1 << bits) - 1, r.randrange(1 << bits)))
            lit = ("0x%X" if r.random() < 0.5 else "0x%x") % v
        elif form == "edge":
            v = r.choice((0, 1, (1 << bits) - 1, (1 << (bits - 1)), (1 << (bits - 1)) - 1, 10, 255, 256))
            v %= 1 << bits
            lit = str(v)
        else:
            v = r.randrange(1 << r.randrange(1, bits + 1))
            lit = str(v)
        self.text.extend(b"#" * w + lit.encode())
        self.emit((v % (1 << bits)).to_bytes(size, "big" if self.big else "little"), "int%d-%s" % (bits, "neg" if v < 0 else "hex" if form == "hex" else "dec"))
        self.ws(True)

    def _float_literal(self, dbl):
        r = self.r
        x = r.random()
        if x < 0.25:
            return "%s%d.%0*d" % (r.choice(("", "-")), r.randrange(0, 3000), r.randrange(1, 5), r.randrange(0, 1000))
        if x < 0.40:
            return str(r.randrange(-100000, 100000))
        if x < 0.55:
            return "%s%d.%de%s%d" % (r.choice(("", "-")), r.randrange(1, 10), r.randrange(0, 100000), r.choice(("", "-", "+")),
                                     r.randrange(0, 300 if dbl else 37))
        if x < 0.60:
            return r.choice(("inf", "-inf", "0", "-0.0", "1e-40" if not dbl else "1e-310", ".5", "5.", "1E3"))
        if dbl:
            bits = r.getrandbits(64)
            v = struct.unpack("<d", struct.pack("<Q", bits))[0]
            if math.isnan(v) or math.isinf(v):
                v = 1.5
            return "%.17g" % v
        bits = r.getrandbits(32)
        v = struct.unpack("<f", struct.pack("<I", bits))[0]
        if math.isnan(v) or math.isinf(v):
            v = 1.5
        return "%.9g" % v

    def floating(self):
        dbl = self.r.random() < 0.5
        suffix = ""
        if self.r.random() < 0.3:
            lit, kind = midpoint_literal(self.r, dbl)
            suffix = "-midpoint"
            self.items.add("midpoint:%s:%s" % ("double" if dbl else "float", kind))
        else:
            lit = self._float_literal(dbl)
        libc_selfcheck(lit, dbl)
        self.text.extend((b"%%" if dbl else b"%") + lit.encode())
        if dbl:
            self.emit(f64_bytes(lit, self.big), "double" + suffix)
        else:
            self.emit(f32_bits(lit).to_bytes(4, "big" if self.big else "little"), "float" + suffix)
        self.ws(True)

    def line_comment(self, last):
        r = self.r
        body = bytes(r.choice(_COMMENT_CHARS) for _ in range(r.randrange(0, 30)))
        self.text.extend(b"//" + body)
        if not last or r.random() < 0.5:
            self.text.extend(b"\n")
        self.items.add("comment-line")

    def block_comment(self):
        r = self.r
        body = bytes(r.choice(_COMMENT_CHARS + b"\n*/") for _ in range(r.randrange(0, 30)))
        body = body.replace(b"*/", b"* ")
        if body.startswith(b"/"):
            body = b" " + body
        self.text.extend(b"/*" + body + b"*/")
        self.items.add("comment-block")


def gen_text(rng):
    b = TextBuilder(rng)
    nitems = rng.choice((1, 2, 3, 4, 6, 9, 14))
    choices = ("hex", "hex", "dq", "dq", "sq", "mask", "mask", "endian", "int", "int", "float", "float", "lc", "bc")
    for k in range(nitems):
        b.ws()
        it = rng.choice(choices)
        if it == "hex":
            b.hexbytes()
        elif it == "dq":
            b.dq()
        elif it == "sq":
            b.sq()
        elif it == "mask":
            b.toggle_mask()
        elif it == "endian":
            b.toggle_endian()
        elif it == "int":
            b.integer()
        elif it == "float":
            b.floating()
        elif it == "lc":
            b.line_comment(k == nitems - 1)
        else:
            b.block_comment()
    b.ws()
    return b


FIXED_TEXTS = [
    # the documented example of the unit test, and small single-construct texts
    b"/* omit 01 02 */ 03 ?04? $ ##30 $ ##127 ?\"dark\"? ###-1 'cold' %-1.667 %%-2.667",
    b"", b" ", b"00", b"\"\"", b"''", b"\"\\\\\"", b"\"a\\\\b\"", b"'\\\\'", b"$ 'A' $ 'A'", b"#1 ##1 ###1 ####1 ",
    b"$ #1 ##1 ###1 ####1 ", b"%1 %%1 $ %1 %%1 ",
    # just above the midpoint of 1 and 1+2^-23: a text->double->float conversion rounds it down to 1.0
    b"%1.00000005960464478 $ %1.00000005960464478 ", b"%-1.0000001788139343262 %1.0000001788139343261 ",
    b"%%1.00000000000000011102230246251565404236316680908203126 %%1.00000000000000011102230246251565404236316680908203124 ", b"? 00 ? 00", b"// only a comment", b"/* only a comment */",
]


def judge_grammar_case(text, exp_data, exp_mask, spans, status, got_data, got_mask):
    """Returns None or (key, what)."""
    if status != 0:
        return ("parse:grammar:throws", "parse_data_string threw on a well-formed text: %r" % got_data[:200])
    if got_data != exp_data:
        k = 0
        lim = min(len(got_data), len(exp_data))
        while k < lim and got_data[k] == exp_data[k]:
            k += 1
        item = "trailing" if spans else "fixed-text"
        for s, e, name in spans:
            if s <= k < e:
                item = name
                break
        else:
            if k >= len(exp_data):
                item = "extra-output"
        return ("parse:grammar:%s:bytes" % item, "bytes differ from the syntax definition at output offset %d" % k)
    if got_mask != exp_mask:
        k = 0
        lim = min(len(got_mask), len(exp_mask))
        while k < lim and got_mask[k] == exp_mask[k]:
            k += 1
        item = "size"
        for s, e, name in spans:
            if s <= k < e:
                item = name
                break
        return ("parse:grammar:%s:mask" % item, "mask differs at output offset %d" % k)
    return None


# =================================================================================================
# 2. hex dump decoder

_SGR = re.compile(rb"\x1b\[([0-9;]*)m")
_HEXD = b"0123456789ABCDEFabcdef"
_ADDR = re.compile(rb"[0-9A-Fa-f]+")
RED, INV = 1, 2


def strip_sgr(line):
    """Returns (visible bytes, per-char attribute list or None if there was no escape)."""
    if b"\x1b" not in line:
        return line, None
    vis = bytearray()
    attrs = []
    cur = 0
    pos = 0
    for m in _SGR.finditer(line):
        chunk = line[pos:m.start()]
        vis.extend(chunk)
        attrs.extend([cur] * len(chunk))
        for p in (m.group(1) or b"0").split(b";"):
            code = int(p or b"0")
            if code == 0:
                cur = 0
            elif code == 31:
                cur |= RED
            elif code == 7:
                cur |= INV
            # 1 (bold) and anything else: no effect on what the oracle records
        pos = m.end()
    chunk = line[pos:]
    vis.extend(chunk)
    attrs.extend([cur] * len(chunk))
    return bytes(vis), attrs


def reaches_2_64(addr, n):
    return n > 0 and addr + n > TOP_LINE


def judge_dump(addr, flags, data, prev, status, out, classes):
    """Decode `out` and compare with the dumped bytes. Returns list of (kind, what). `classes` (dict) gets coverage marks."""
    n = len(data)
    bad = []

    def cls(k):
        classes[k] = classes.get(k, 0) + 1

    if status != 0:
        msg = out.decode(errors="replace")
        kind = "throws-reads-exceeded-final-iov" if "exceeded final" in msg else "throws-other"
        return [(kind, "format_data threw on a valid buffer: " + msg)]
    if n == 0:
        if out != b"":
            bad.append(("output-for-empty-buffer", "empty buffer rendered as %r" % out[:80]))
        cls("dump:empty-buffer")
        return bad
    if out == b"":
        return [("prints-nothing", "non-empty buffer rendered as the empty string")]
    use_color = bool(flags & USE_COLOR)
    if not use_color and b"\x1b" in out:
        bad.append(("escape-without-USE_COLOR", "terminal escape in output although USE_COLOR is not set"))
    if out and not out.endswith(b"\n"):
        return bad + [("line-shape", "output does not end with a newline")]
    lines = out.split(b"\n")[:-1] if out else []
    first_line = addr & ~15
    last_line = (addr + n - 1) & ~15
    nlines = ((last_line - first_line) >> 4) + 1
    skipsep = bool(flags & SKIP_SEP)
    want_ascii, want_float, want_double = bool(flags & PRINT_ASCII), bool(flags & PRINT_FLOAT), bool(flags & PRINT_DOUBLE)
    big = bool(flags & (REVERSE_ENDIAN | BIG_ENDIAN))  # host is little-endian; REVERSE = swapped = big
    seen_lines = {}
    decoded = {}
    prev_la = -1
    any_red = False
    for ln in lines:
        vis, attrs = strip_sgr(ln)
        m = _ADDR.match(vis)
        if not m:
            bad.append(("line-shape", "no address column in line %r" % vis[:60]))
            continue
        la = int(m.group(0), 16)
        pos = m.end()
        if not skipsep:
            if vis[pos:pos + 2] != b" |":
                bad.append(("line-shape", "no ' |' after the address in %r" % vis[:60]))
                continue
            pos += 2
        if la & 15 or la < first_line or la > last_line:
            bad.append(("address-column", "line address 0x%X is not a 16-byte line of the dumped range" % la))
            continue
        if la <= prev_la:
            bad.append(("address-column", "line address 0x%X repeated or out of order" % la))
            continue
        prev_la = la
        seen_lines[la] = True
        cells_at = pos
        cells = vis[pos:pos + 48]
        if len(cells) != 48:
            bad.append(("line-shape", "hex area shorter than 16 cells at line 0x%X" % la))
            continue
        present = [False] * 16
        shape_ok = True
        for col in range(16):
            cell = cells[3 * col:3 * col + 3]
            a = la + col
            if cell == b"   ":
                continue
            if cell[0] != 0x20 or cell[1] not in _HEXD or cell[2] not in _HEXD:
                bad.append(("line-shape", "bad hex cell %r at 0x%X" % (cell, a)))
                shape_ok = False
                break
            present[col] = True
            v = int(cell[1:], 16)
            if a < addr or a >= addr + n:
                bad.append(("hex-cell-outside-range", "cell at 0x%X shows %02X but the address is outside the dumped range" % (a, v)))
                continue
            decoded[a] = v
            if v != data[a - addr]:
                bad.append(("hex-cell-wrong-byte", "cell at 0x%X shows %02X, dumped byte is %02X" % (a, v, data[a - addr])))
            red = bool(attrs and (attrs[cells_at + 3 * col + 1] & RED) and (attrs[cells_at + 3 * col + 2] & RED))
            anyred_cell = bool(attrs and ((attrs[cells_at + 3 * col + 1] | attrs[cells_at + 3 * col + 2]) & RED))
            differs = use_color and prev is not None and prev[a - addr] != data[a - addr]
            if anyred_cell and not differs:
                bad.append(("highlight:hex:unchanged-byte-highlighted", "cell at 0x%X highlighted but equals the previous buffer" % a))
            elif differs and not red:
                bad.append(("highlight:hex:changed-byte-not-highlighted", "cell at 0x%X differs from the previous buffer but is not highlighted" % a))
            any_red = any_red or red
        if not shape_ok:
            continue
        pos += 48
        if want_ascii:
            sep = b" " if skipsep else b" | "
            if vis[pos:pos + len(sep)] != sep:
                bad.append(("line-shape", "ASCII separator missing at line 0x%X" % la))
                continue
            pos += len(sep)
            asc = vis[pos:pos + 16]
            if len(asc) != 16:
                bad.append(("line-shape", "ASCII column shorter than 16 at line 0x%X" % la))
                continue
            for col in range(16):
                ch = asc[col]
                a = la + col
                if not present[col] or not (addr <= a < addr + n):
                    if ch != 0x20:
                        bad.append(("ascii-column", "ASCII column shows %r at 0x%X where no byte is dumped" % (chr(ch), a)))
                    continue
                b = data[a - addr]
                want = b if 0x20 <= b <= 0x7E else 0x20
                if ch != want:
                    bad.append(("ascii-column", "byte %02X at 0x%X shown as %r in the ASCII column" % (b, a, chr(ch))))
                red = bool(attrs and attrs[pos + col] & RED)
                differs = use_color and prev is not None and prev[a - addr] != b
                # a non-printable byte is drawn as an inverse blank whose own reset also ends the red attribute
                # *after* the blank, so the attribute on the character itself is what counts
                if red and not differs:
                    bad.append(("highlight:ascii:unchanged-byte-highlighted", "ASCII char at 0x%X highlighted but equals the previous buffer" % a))
                elif differs and not red:
                    bad.append(("highlight:ascii:changed-byte-not-highlighted", "ASCII char at 0x%X differs but is not highlighted" % a))
            pos += 16
        for want, width, fmtc, name in ((want_float, 4, "f", "float"), (want_double, 8, "d", "double")):
            if not want:
                continue
            sep = b" " if skipsep else b" |"
            if vis[pos:pos + len(sep)] != sep:
                bad.append(("line-shape", "%s separator missing at line 0x%X" % (name, la)))
                pos = -1
                break
            pos += len(sep)
            nf = 16 // width
            area = vis[pos:pos + 13 * nf]
            if len(area) != 13 * nf:
                bad.append(("line-shape", "%s column has wrong width at line 0x%X" % (name, la)))
                pos = -1
                break
            for k in range(nf):
                cols = range(k * width, (k + 1) * width)
                if not all(present[c] and addr <= la + c < addr + n for c in cols):
                    continue  # partially covered field: nothing demanded
                raw = bytes(data[la + c - addr] for c in cols)
                v = struct.unpack((">" if big else "<") + fmtc, raw)[0]
                if math.isnan(v) or math.isinf(v):
                    cls("dump:%s:non-finite-field-skipped" % name)
                    continue
                wantf = b" " + ("%12.5g" % v).encode()
                if area[13 * k:13 * k + 13] != wantf:
                    bad.append(("%s-column" % name, "%s field at 0x%X is %r, expected %r for bytes %s" % (
                        name, la + k * width, area[13 * k:13 * k + 13], wantf, raw.hex())))
                cls("dump:%s:finite-field-checked:%s" % (name, "be" if big else "le"))
            pos += 13 * nf
        if pos < 0:
            continue
        if pos != len(vis):
            bad.append(("line-shape", "unexpected trailing text %r at line 0x%X" % (vis[pos:pos + 40], la)))
    # which lines are there
    collapse = bool(flags & COLLAPSE)
    omitted = 0
    la = first_line
    for k in range(nlines):
        la = first_line + 16 * k
        interior = 0 < k < nlines - 1
        zero = False
        if interior:
            off = la - addr
            zero = not any(data[off:off + 16]) and (prev is None or not any(prev[off:off + 16]))
        if la in seen_lines:
            if collapse and interior and zero:
                bad.append(("collapse:kept-zero-interior-line", "line 0x%X is all-zero, interior, and was printed despite COLLAPSE_ZERO_LINES" % la))
            continue
        omitted += 1
        if not collapse:
            bad.append(("bytes-missing", "line 0x%X of the dumped range is not in the output" % la))
        elif not (interior and zero):
            why = "first/last line" if not interior else "not all-zero in %s" % ("the current buffer" if any(data[la - addr:la - addr + 16]) else "the previous buffer")
            bad.append(("collapse:omitted-nonzero-or-edge-line", "line 0x%X omitted but it is %s" % (la, why)))
    # every byte of every printed line must have been decoded
    for la in seen_lines:
        lo = max(la, addr)
        hi = min(la + 16, addr + n)
        for a in range(lo, hi):
            if a not in decoded:
                bad.append(("bytes-missing", "byte at 0x%X is in the dumped range but its cell is blank" % a))
                break
    # coverage marks
    if omitted and collapse:
        cls("dump:collapse:lines-omitted")
    if collapse and nlines > 2:
        cls("dump:collapse:interior-lines-present")
    if any_red:
        cls("dump:highlight:cells-highlighted")
    if addr & 15:
        cls("dump:partial-first-line")
    if (addr + n) & 15:
        cls("dump:partial-last-line")
    cls("dump:lines:%s" % ("1" if nlines == 1 else "2" if nlines == 2 else "3-8" if nlines <= 8 else "9+"))
    if reaches_2_64(addr, n):
        cls("dump:range-reaches-2^64:%s" % ("ends-at-2^64" if addr + n == TWO64 else "ends-in-last-line"))
    return bad


# =================================================================================================
# 3. stages

def _rd32(buf, p):
    return struct.unpack_from("<I", buf, p)[0], p + 4


def _rdstr(buf, p):
    n, p = _rd32(buf, p)
    return bytes(buf[p:p + n]), p + n


def _flagstr(flags):
    return "|".join(nm for bit, nm in FLAG_NAMES if flags & bit) or "0"


def _new_session():
    """Pool workers and fuzz processes get their own session, as the driver's harness shards do (on hosts with
    sched_autogroup a whole session shares one CPU slice, which starves a 16-process pool on a busy machine)."""
    try:
        os.setsid()
    except OSError:
        pass


def _io_task(a):
    """One (round, shard): generate grammar cases, run the harness, judge its two logs."""
    exe, tier, seed, rnd, shard, nshards, workdir, ntexts = a
    from vf import driver
    res = driver.empty_result()

    def violation(key, what, case):
        res["violation_counts"][key] = res["violation_counts"].get(key, 0) + 1
        if res["violation_counts"][key] <= 3:
            res["violations"].append({"key": key, "what": what, "case": case,
                                      "meta": {"stage": "c09-io", "shard": None}})

    tag = "c09-io-r%d" % rnd
    base = os.path.join(workdir, "%s.%d" % (tag, shard))
    cases_path, res_path, log_path = base + ".cases", base + ".res", base + ".dumps"
    rng = random.Random("c09-grammar-%d-%d-%d" % (seed, rnd, shard))
    builders = []
    with open(cases_path, "wb") as f:
        texts = []
        if shard == 0 and rnd == 0:
            for t in FIXED_TEXTS:
                texts.append((t, None))
        for _ in range(ntexts):
            b = gen_text(rng)
            texts.append((bytes(b.text), b))
        for t, b in texts:
            f.write(struct.pack("<I", len(t)) + t)
        builders = texts
    r = driver.run_shard(exe, tier, seed, shard, nshards, workdir, tag,
                         args=["only=io", "cases=" + cases_path, "res=" + res_path, "log=" + log_path, "round=%d" % rnd],
                         timeout=1500 if tier == "quick" else 7200)
    fatal, ub = driver.parse_sanitizer_log(r["stderr"])
    res["ub_observations"] = ub
    if r["timed_out"]:
        raise driver.Inconclusive("c09-io round %d shard %d: watchdog fired; last case: %s" % (rnd, shard, r["crumb"]))
    if r["rc"] != 0 or r["result"] is None:
        tail = r["stderr"][-3000:]
        if fatal:
            for k, w in fatal:
                violation(k, w, r["crumb"])
                res["violations"][-1]["stderr_tail"] = tail
        elif r["rc"] in (2, 3) or "[harness-error]" in tail:
            raise driver.Inconclusive("c09-io round %d shard %d: harness failure rc=%s\n%s" % (rnd, shard, r["rc"], tail))
        else:
            violation("crash:signal%d" % -r["rc"] if r["rc"] < 0 else "crash:exit%d" % r["rc"], "harness process died", r["crumb"])
            res["violations"][-1]["stderr_tail"] = tail
    else:
        for k, w in fatal:
            violation(k, w, r["crumb"])
        driver.merge(res, r["result"])
    classes = res["classes"]
    # ---- grammar results
    try:
        with open(res_path, "rb") as f:
            buf = f.read()
    except OSError:
        buf = b""
    p = 0
    judged = 0
    for text, b in builders:
        if p >= len(buf):
            break
        status = buf[p]
        p += 1
        got_data, p = _rdstr(buf, p)
        got_mask, p = _rdstr(buf, p)
        exp_data, exp_mask = ref_parse(text)
        spans = []
        if b is not None:
            if exp_data != bytes(b.data) or exp_mask != bytes(b.mask):
                raise OracleError("generator and reference parser disagree on %r: %s/%s vs %s/%s" % (
                    text, exp_data.hex(), exp_mask.hex(), bytes(b.data).hex(), bytes(b.mask).hex()))
            spans = b.spans
            for it in b.items:
                classes["grammar:" + it] = classes.get("grammar:" + it, 0) + 1
        else:
            classes["grammar:fixed-text"] = classes.get("grammar:fixed-text", 0) + 1
        judged += 1
        v = judge_grammar_case(text, exp_data, exp_mask, spans, status, got_data, got_mask)
        if v:
            violation(v[0], v[1], "parse_data_string(%r) = data %s mask %s; syntax defines data %s mask %s" % (
                text, got_data.hex(), got_mask.hex(), exp_data.hex(), exp_mask.hex()))
        elif judged % 5000 == 3 and len(res["samples"]) < 2:
            res["samples"].append("grammar text %r -> %s" % (text[:120], exp_data.hex()[:80]))
    res["counters"]["grammar_texts_judged"] = judged
    res["evaluations"] += judged
    # ---- dump log
    try:
        with open(log_path, "rb") as f:
            buf = f.read()
    except OSError:
        buf = b""
    p = 0
    nd = 0
    L = len(buf)
    while p < L:
        if buf[p] != 0x44:
            raise OracleError("dump log out of sync at %d" % p)
        addr, flags = struct.unpack_from("<QQ", buf, p + 1)
        p += 17
        label, p = _rdstr(buf, p)
        data, p = _rdstr(buf, p)
        has_prev = buf[p]
        p += 1
        prev = None
        if has_prev:
            prev, p = _rdstr(buf, p)
        status = buf[p]
        p += 1
        out, p = _rdstr(buf, p)
        nd += 1
        bad = judge_dump(addr, flags, data, prev, status, out, classes)
        lab = label.decode()
        m = re.match(r"addr=(\S+) data=(\S+) cmode=(\S+)", lab)
        if m:
            k = "dump:%s:%s" % (m.group(1), m.group(3))
            classes[k] = classes.get(k, 0) + 1
            k = "dump:data:%s" % m.group(2)
            classes[k] = classes.get(k, 0) + 1
        for bit, nm in FLAG_NAMES:
            if flags & bit:
                classes["dump:flag:" + nm] = classes.get("dump:flag:" + nm, 0) + 1
        if bad:
            prefix = "format_data:range-reaches-2^64:" if reaches_2_64(addr, len(data)) else "format_data:"
            seen = set()
            for kind, what in bad:
                if kind in seen:
                    continue
                seen.add(kind)
                violation(prefix + kind, what,
                          "format_data(addr=0x%X, flags=0x%X [%s], len=%d, data=%s, prev=%s) [%s] printed %r" % (
                              addr, flags, _flagstr(flags), len(data), data.hex(), prev.hex() if prev is not None else "null",
                              lab, out[:1500]))
        elif nd % 20000 == 5 and len(res["samples"]) < 4:
            res["samples"].append("dump addr=0x%X flags=%s len=%d -> %r" % (addr, _flagstr(flags), len(data), out[:160]))
    res["counters"]["dumps_decoded"] = nd
    res["evaluations"] += nd
    for pth in (cases_path, res_path, log_path):
        try:
            os.unlink(pth)
        except OSError:
            pass
    return res


def stage_io(ctx, st):
    from vf import build, driver
    exe = build.build_harness("c09", "asan")
    tier, seed = ctx["tier"], ctx["seed"]
    nshards = 16
    rounds = 1 if tier == "quick" else 6
    ntexts = (20000 if tier == "quick" else 1000000) // (nshards * rounds) + 1
    tasks = [(exe, tier, seed, rnd, sh, nshards, ctx["workdir"], ntexts) for rnd in range(rounds) for sh in range(nshards)]
    merged = driver.empty_result()
    try:
        with ProcessPoolExecutor(max_workers=min(16, os.cpu_count() or 4), initializer=_new_session) as ex:
            for r in ex.map(_io_task, tasks):
                driver.merge(merged, r)
    except OracleError as e:
        raise driver.Inconclusive("C09 oracle self-check failed: %s" % e)
    merged["extra"]["rounds"] = rounds
    merged["extra"]["shards"] = nshards
    return merged


# -------------------------------------------------------------------------------------------------

_FUZZ_DICT = ['"\\""', '"\'"', '"\\\\"', '"?"', '"$"', '"#"', '"##"', '"###"', '"####"', '"%"', '"%%"', '"//"', '"/*"', '"*/"',
              '"\\x0a"', '"0x"', '"-"', '"inf"', '"nan"', '"1e"', '"\\\\n"', '"\\\\\\""', '"<"', '">"']


def _fuzz_task(a):
    import subprocess
    exe, k, seed, runs, workdir, env = a
    corpus = os.path.join(workdir, "fuzz-corpus-%d" % k)
    art = os.path.join(workdir, "fuzz-art-%d-" % k)
    os.makedirs(corpus, exist_ok=True)
    rng = random.Random("c09-fuzz-%d-%d" % (seed, k))
    for i, t in enumerate(FIXED_TEXTS[:1] + [bytes(gen_text(rng).text) for _ in range(12)]):
        with open(os.path.join(corpus, "seed%d" % i), "wb") as f:
            f.write(t)
    dict_path = os.path.join(workdir, "fuzz-%d.dict" % k)
    with open(dict_path, "w") as f:
        f.write("\n".join(_FUZZ_DICT) + "\n")
    cmd = [exe, "-runs=%d" % runs, "-seed=%d" % (seed * 1000 + k + 1), "-max_len=%d" % (96 if k % 2 else 400), "-timeout=25",
           "-rss_limit_mb=3000", "-artifact_prefix=" + art, "-dict=" + dict_path, "-print_final_stats=1", "-verbosity=1", corpus]
    try:
        p = subprocess.run(cmd, stdout=subprocess.PIPE, stderr=subprocess.STDOUT, env=env, cwd=workdir, timeout=9000,
                           start_new_session=True)
        rc, text = p.returncode, p.stdout.decode(errors="replace")
    except subprocess.TimeoutExpired as e:
        rc, text = -9, (e.stdout or b"").decode(errors="replace") + "\n[fuzz] wall-clock watchdog"
    arts = []
    for fn in sorted(os.listdir(workdir)):
        if fn.startswith("fuzz-art-%d-" % k):
            with open(os.path.join(workdir, fn), "rb") as f:
                arts.append((fn, f.read(4096)))
    return k, rc, text, arts


def stage_fuzz(ctx, st):
    from vf import build, driver
    exe = build.build_harness("c09_fuzz", "fuzz", extra_link=["-fsanitize=fuzzer"])
    tier, seed = ctx["tier"], ctx["seed"]
    nproc = 8 if tier == "quick" else 16
    runs = 250000 if tier == "quick" else 1500000
    env = dict(os.environ)
    env.update(driver.SAN_ENV)
    tasks = [(exe, k, seed, runs, ctx["workdir"], env) for k in range(nproc)]
    res = driver.empty_result()
    with ProcessPoolExecutor(max_workers=min(nproc, os.cpu_count() or 4), initializer=_new_session) as ex:
        outs = list(ex.map(_fuzz_task, tasks))
    total = 0
    for k, rc, text, arts in outs:
        m = re.search(r"stat::number_of_executed_units:\s*(\d+)", text)
        units = int(m.group(1)) if m else 0
        total += units
        covs = re.findall(r"cov: (\d+) ft: (\d+)", text)
        if covs:
            res["counters"]["fuzz_max_edges"] = max(res["counters"].get("fuzz_max_edges", 0), int(covs[-1][0]))
            res["counters"]["fuzz_max_features"] = max(res["counters"].get("fuzz_max_features", 0), int(covs[-1][1]))
        if rc == 0 and units > 0:
            res["classes"]["fuzz:process-completed-all-runs"] = res["classes"].get("fuzz:process-completed-all-runs", 0) + 1
            if re.search(r"\bNEW\b|\bREDUCE\b", text):
                res["classes"]["fuzz:new-coverage-found"] = res["classes"].get("fuzz:new-coverage-found", 0) + 1
            continue
        if rc == -9 and "watchdog" in text:
            raise driver.Inconclusive("c09-fuzz process %d exceeded its wall-clock watchdog" % k)
        fatal, ub = driver.parse_sanitizer_log(text)
        case = "; ".join("%s=%s" % (fn, b.hex()) for fn, b in arts) or "(no artifact)"
        keys = []
        if "C09-FUZZ-INVARIANT" in text:
            mm = re.search(r"C09-FUZZ-INVARIANT (\S+)", text)
            keys.append(("fuzz:invariant:" + mm.group(1), "fuzz target invariant failed"))
        elif "libFuzzer: timeout" in text:
            keys.append(("fuzz:timeout", "one input ran longer than 25 s"))
        elif "libFuzzer: out-of-memory" in text:
            keys.append(("fuzz:out-of-memory", "rss limit exceeded"))
        keys += [("fuzz:" + kk, w) for kk, w in fatal]
        if not keys:
            if "libFuzzer: deadly signal" in text:
                keys.append(("fuzz:deadly-signal", "process received a fatal signal"))
            else:
                raise driver.Inconclusive("c09-fuzz process %d ended rc=%s after %d of %d runs without a report:\n%s" % (
                    k, rc, units, runs, text[-2500:]))
        for key, what in keys:
            res["violation_counts"][key] = res["violation_counts"].get(key, 0) + 1
            res["violations"].append({"key": key, "what": what, "case": "libFuzzer input " + case,
                                      "stderr_tail": text[-3500:], "meta": {"stage": "c09-fuzz", "shard": None}})
    res["evaluations"] = total
    res["counters"]["fuzz_executed_units"] = total
    res["extra"]["fuzz_processes"] = nproc
    res["samples"].append("libFuzzer: %d processes x %d runs on parse_data_string (text and mask invariants, ASan+UBSan)" % (nproc, runs))
    return res


if __name__ == "__main__":
    # self-test of the oracle pieces:  python3 -m vf.oracles.c09
    assert f32_bits("-1.667") == 0xBFD56042 and f32_bits("1") == 0x3F800000 and f32_bits("1e-45") == 1
    assert f32_bits("1.00000005960464478") == 0x3F800001 and f32_bits("1.000000059604644775390625") == 0x3F800000
    assert f32_bits("16777217") == 0x4B800000 and f32_bits("3.5e38") == 0x7F800000 and f32_bits("-0.0") == 0x80000000
    d, m = ref_parse(FIXED_TEXTS[0])
    assert d.hex() == "0304001e7f006461726bffffffff63006f006c0064004260d5bfbc749318045605c0", d.hex()
    assert m.hex() == "ff00ffffffff00000000" + "ff" * 24
    rng = random.Random(5)
    for _ in range(20000):
        b = gen_text(rng)
        d, m = ref_parse(bytes(b.text))
        assert d == bytes(b.data) and m == bytes(b.mask), (bytes(b.text), d.hex(), bytes(b.data).hex())
    print("ok")
