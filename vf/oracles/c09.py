"""C09 — independent Python oracles.

* reference parser for the data-string syntax ($ # ## ### #### % %% "..." '...' // /* */ ? and hex nybbles),
  used to judge grammar-generated texts executed by harness/c09.cc (--arg only=io --arg cases=...)
* hex-dump decoder (address column, 16 hex cells, ASCII column, float/double columns, SGR escapes) used to judge
  the dump log written by the same harness (--arg log=...)
* bounded libFuzzer run on parse_data_string (totality only)

Nothing here looks at phosg's source; the semantics are those of the property statement and the PrintDataFlags comments.
"""
import math
import os
import random
import re
import struct
import sys
from concurrent.futures import ProcessPoolExecutor
import decimal
from decimal import Decimal
from fractions import Fraction

TWO64 = 1 << 64
TOP_LINE = TWO64 - 16

# PrintDataFlags
USE_COLOR, PRINT_ASCII, PRINT_FLOAT, PRINT_DOUBLE, REVERSE_ENDIAN = 0x1, 0x2, 0x4, 0x8, 0x10
COLLAPSE, SKIP_SEP, DISABLE_COLOR = 0x20, 0x40, 0x80
OFF8, OFF16, OFF32, OFF64, BIG_ENDIAN, LITTLE_ENDIAN = 0x100, 0x200, 0x400, 0x800, 0x1000, 0x2000
FLAG_NAMES = [(USE_COLOR, "USE_COLOR"), (PRINT_ASCII, "PRINT_ASCII"), (PRINT_FLOAT, "PRINT_FLOAT"),
              (PRINT_DOUBLE, "PRINT_DOUBLE"), (REVERSE_ENDIAN, "REVERSE_ENDIAN_FLOATS"), (COLLAPSE, "COLLAPSE_ZERO_LINES"),
              (SKIP_SEP, "SKIP_SEPARATOR"), (DISABLE_COLOR, "DISABLE_COLOR"), (OFF8, "OFFSET_8_BITS"),
              (OFF16, "OFFSET_16_BITS"), (OFF32, "OFFSET_32_BITS"), (OFF64, "OFFSET_64_BITS"),
              (BIG_ENDIAN, "BIG_ENDIAN_FLOATS"), (LITTLE_ENDIAN, "LITTLE_ENDIAN_FLOATS")]


class OracleError(Exception):
    """The oracle itself is inconsistent (generator and reference parser disagree) -> inconclusive, never a verdict."""


# =================================================================================================
# 1. data-string syntax: reference parser

_INT_RE = re.compile(rb"[ \t\n\v\f\r]*([+-]?)(0[xX][0-9a-fA-F]+|[0-9]+)")
_FLT_RE = re.compile(rb"[ \t\n\v\f\r]*([+-]?(?:[0-9]+\.?[0-9]*(?:[eE][+-]?[0-9]+)?|\.[0-9]+(?:[eE][+-]?[0-9]+)?|[iI][nN][fF]))")
_SIMPLE_ESC = {ord("n"): 10, ord("r"): 13, ord("t"): 9}


_DEC_LIT = re.compile(r"([+-]?)(?:([0-9]+)\.?([0-9]*)|\.([0-9]+))(?:[eE]([+-]?[0-9]+))?\Z")
_HEX_LIT = re.compile(r"([+-]?)0[xX](?:([0-9a-fA-F]+)\.?([0-9a-fA-F]*)|\.([0-9a-fA-F]+))(?:[pP]([+-]?[0-9]+))?\Z")
_INF, _ZERO = "inf", "zero"


def literal_value(text):
    """(negative, magnitude) of a decimal or C99 hexadecimal floating literal, computed exactly. The magnitude is a
    Fraction, or _INF for 'inf' and for magnitudes above 10^400 (beyond every binary64), or _ZERO for magnitudes
    below 10^-400 (below half the smallest binary64 subnormal) - so that absurd exponents never build huge integers."""
    t = text.strip()
    low = t.lower()
    if low.lstrip("+-") in ("inf", "infinity"):
        return low.startswith("-"), _INF
    m = _DEC_LIT.match(t)
    base = 10
    if not m:
        m = _HEX_LIT.match(t)
        base = 16
        if not m:
            raise OracleError("not a floating literal: %r" % text)
    neg = m.group(1) == "-"
    ip, fp = (m.group(2), m.group(3)) if m.group(2) is not None else ("", m.group(4))
    ex = int(m.group(5) or "0")
    digits = (ip + fp).lstrip("0")
    if not digits:
        return neg, Fraction(0)
    # order: exponent (in digits of the base) of the leading non-zero digit
    order = len(ip) - (len(ip + fp) - len(digits)) - 1
    scale = 1 if base == 10 else 4
    approx10 = (order * scale + ex) * (1.0 if base == 10 else 0.30103)
    if approx10 > 400:
        return neg, _INF
    if approx10 < -400:
        return neg, _ZERO
    mant = int(digits, base)
    drop = len(fp)
    if base == 10:
        e10 = ex - drop
        a = Fraction(mant * 10 ** e10) if e10 >= 0 else Fraction(mant, 10 ** -e10)
    else:
        e2 = ex - 4 * drop
        a = Fraction(mant * 2 ** e2) if e2 >= 0 else Fraction(mant, 2 ** -e2)
    return neg, a


def round_binary(a, p, emin):
    """Bits (without sign) of the IEEE-754 binary format with p significand bits (hidden one included) and minimum
    normal exponent emin nearest to the positive Fraction a, ties to even; overflow gives the infinity pattern."""
    bias = 1 - emin
    inf = (2 * bias + 1) << (p - 1)
    if a is _INF:
        return inf
    if a is _ZERO or a == 0:
        return 0
    e = a.numerator.bit_length() - a.denominator.bit_length()
    if Fraction(2) ** e > a:
        e -= 1
    elif Fraction(2) ** (e + 1) <= a:
        e += 1
    qexp = max(e, emin) - (p - 1)
    m = round(a / Fraction(2) ** qexp)  # Python rounds Fractions half-to-even
    if m == 1 << p:
        m >>= 1
        qexp += 1
    if m == 0:
        return 0
    if m >= 1 << (p - 1):
        ef = qexp + (p - 1) + bias
        if ef >= 2 * bias + 1:
            return inf
        return (ef << (p - 1)) | (m - (1 << (p - 1)))
    return m  # subnormal


def f32_bits(text):
    """Correctly rounded (nearest, ties to even) binary32 image of a literal, computed exactly."""
    neg, a = literal_value(text)
    return (0x80000000 if neg else 0) | round_binary(a, 24, -126)


def f64_bits(text):
    neg, a = literal_value(text)
    return ((1 << 63) if neg else 0) | round_binary(a, 53, -1022)


# libc's own strtof/strtod (no phosg involved) as a self-check of the exact arithmetic above: a disagreement makes the
# run inconclusive, it never decides a verdict.
try:
    import ctypes
    _libc = ctypes.CDLL(None)
    _libc.strtof.restype = ctypes.c_float
    _libc.strtof.argtypes = [ctypes.c_char_p, ctypes.c_void_p]
    _libc.strtod.restype = ctypes.c_double
    _libc.strtod.argtypes = [ctypes.c_char_p, ctypes.c_void_p]
except Exception:  # pragma: no cover
    _libc = None


def libc_selfcheck(lit, dbl):
    """Two more opinions on the exact arithmetic above: CPython's correctly rounded float() for binary64 decimal
    literals and libc's strtof/strtod called directly (no phosg involved). A disagreement is an oracle error."""
    if dbl and not re.match(r"[+-]?0[xX]", lit.strip()):
        py = struct.pack("<d", float(lit))
        if py != f64_bytes(lit, False):
            raise OracleError("reference rounding of %r (double) is %s but CPython float() gives %s" % (lit, f64_bytes(lit, False).hex(), py.hex()))
    if _libc is None:
        return
    if dbl:
        got = struct.pack("<d", _libc.strtod(lit.encode(), None))
        want = f64_bytes(lit, False)
    else:
        got = struct.pack("<f", _libc.strtof(lit.encode(), None))
        want = f32_bits(lit).to_bytes(4, "little")
    if got != want:
        raise OracleError("reference rounding of %r (%s) is %s but libc gives %s" % (lit, "double" if dbl else "float", want.hex(), got.hex()))


_BIGCTX = decimal.Context(prec=1200)


def exact_decimal(fr):
    """Exact Decimal of a Fraction whose denominator is a power of two."""
    k = fr.denominator.bit_length() - 1
    if fr.denominator != 1 << k:
        raise OracleError("not a dyadic rational")
    return _BIGCTX.multiply(Decimal(fr.numerator * 5 ** k), Decimal(1).scaleb(-k, _BIGCTX))


MIDPOINT_KINDS = ("exact", "nearest-D", "above-D", "below-D", "plus-eps", "minus-eps")


def midpoint_literal(r, dbl):
    """A decimal literal at, or within 1e-17..1e-29 (relative) of, the midpoint of two adjacent floats/doubles.
    Such literals separate a single correct rounding from text->double->float double rounding and from
    truncating conversions. Returns (literal, kind)."""
    if dbl:
        bits = (r.randrange(1023 - 150, 1023 + 150) << 52) | r.getrandbits(52)
        if r.random() < 0.2:
            bits = (bits & ~((1 << 52) - 1)) | r.choice((0, 1, (1 << 52) - 2, (1 << 52) - 1, 1 << 51))
        a = struct.unpack("<d", struct.pack("<Q", bits))[0]
        b = struct.unpack("<d", struct.pack("<Q", bits + 1))[0]
    else:
        bits = (r.randrange(127 - 50, 127 + 60) << 23) | r.getrandbits(23)
        if r.random() < 0.2:
            bits = (bits & ~0x7FFFFF) | r.choice((0, 1, 0x7FFFFE, 0x7FFFFF, 0x400000))
        a = struct.unpack("<f", struct.pack("<I", bits))[0]
        b = struct.unpack("<f", struct.pack("<I", bits + 1))[0]
    m = exact_decimal((Fraction(a) + Fraction(b)) / 2)
    kind = r.choice(MIDPOINT_KINDS)
    D = r.randrange(17, 31)
    if kind == "exact":
        d = m
    elif kind == "nearest-D":
        d = decimal.Context(prec=D, rounding=decimal.ROUND_HALF_EVEN).plus(m)
    elif kind == "above-D":
        d = decimal.Context(prec=D, rounding=decimal.ROUND_UP).plus(m)
    elif kind == "below-D":
        d = decimal.Context(prec=D, rounding=decimal.ROUND_DOWN).plus(m)
    else:
        k = r.randrange(17, 29)
        eps = Decimal(1).scaleb(-k)
        f = (1 + eps) if kind == "plus-eps" else (1 - eps)
        d = decimal.Context(prec=30, rounding=decimal.ROUND_DOWN if kind == "plus-eps" else decimal.ROUND_UP).plus(_BIGCTX.multiply(m, f))
    if r.random() < 0.5:
        d = -d
    lit = format(d, "f") if r.random() < 0.6 else format(d, "e")
    return lit, kind


# ---- numeric-literal spellings -------------------------------------------------------------------
# Families of *decimal* floating literals whose value an independent reading of "a float literal" fixes (judged), see
# notes/c09.md "Round 5" for the reasoning per family. The result of each is the correctly rounded value; two families
# are judged weakly because no document says what an unrepresentable magnitude becomes:
#   overflow  (|x| rounds beyond the largest finite value): the infinity or the largest finite value, correct sign
#   underflow (|x| rounds to zero): a zero of either sign
SPELLING_FAMILIES = ("plus-sign", "leading-zeros", "dot-edge", "exp-marker", "long-digits", "denormal", "underflow",
                     "overflow", "overflow-edge", "mixed-spelling")
_FMT = {False: (24, -126, 4), True: (53, -1022, 8)}  # dbl -> significand bits, min normal exponent, bytes


def _digits(r, n, first_nonzero=True):
    s = "".join(r.choice("0123456789") for _ in range(n))
    if first_nonzero and s and s[0] == "0":
        s = r.choice("123456789") + s[1:]
    return s


def _plain_pos(r, dbl):
    """An ordinary positive literal well inside the range (digits first, no sign)."""
    x = r.random()
    if x < 0.30:
        return "%d.%0*d" % (r.randrange(0, 3000), r.randrange(1, 5), r.randrange(0, 1000))
    if x < 0.45:
        return str(r.randrange(0, 100000))
    if x < 0.80:
        return "%d.%de%s%d" % (r.randrange(1, 10), r.randrange(0, 100000), r.choice(("", "-", "+")), r.randrange(0, 290 if dbl else 30))
    if dbl:
        v = struct.unpack("<d", struct.pack("<Q", r.getrandbits(63)))[0]
        return "%.17g" % v if math.isfinite(v) else "2.5"
    v = struct.unpack("<f", struct.pack("<I", r.getrandbits(31)))[0]
    return "%.9g" % v if math.isfinite(v) else "2.5"


def _shape(d, r, digits=None):
    """Render a positive Decimal in plain or exponent notation, optionally rounded to `digits` significant digits."""
    if digits is not None:
        d = decimal.Context(prec=digits, rounding=r.choice((decimal.ROUND_HALF_EVEN, decimal.ROUND_UP, decimal.ROUND_DOWN)),
                            Emax=decimal.MAX_EMAX, Emin=decimal.MIN_EMIN).plus(d)
    x = r.random()
    if x < 0.45:
        return format(d, "e" if r.random() < 0.7 else "E").replace("E+", r.choice(("E+", "E"))).replace("e+", r.choice(("e+", "e")))
    return format(d, "f")


def _eps(r, up):
    k = r.randrange(12, 40)
    e = Decimal(1).scaleb(-k)
    return (1 + e) if up else (1 - e)


def spelling_literal(r, dbl, family):
    """One literal of the family; returns (literal, family actually produced) - a member of "denormal" that rounds to
    zero is reported as "underflow"."""
    p, emin, _ = _FMT[dbl]
    min_sub = Fraction(1, 2 ** (p - 1 - emin))  # 2^-149 / 2^-1074
    max_fin = Fraction(2 ** p - 1) * Fraction(2) ** (1 - emin - (p - 1))  # (2^p - 1) * 2^(emax - p + 1), emax = 1 - emin... see below
    # emax = -emin + 1 (127 / 1023); largest finite = (2^p - 1) * 2^(emax - (p - 1))
    half_ulp = Fraction(2) ** (1 - emin - (p - 1)) / 2
    threshold = max_fin + half_ulp  # the tie between the largest finite value and 2^(emax+1): rounds (to even) out of range
    rng10 = 290 if dbl else 30
    sign = r.choice(("", "", "-"))
    if family == "plus-sign":
        return "+" + (_plain_pos(r, dbl) if r.random() < 0.93 else "inf"), family
    if family == "leading-zeros":
        k = r.choice((1, 1, 2, 3, 6, 30))
        x = r.random()
        if x < 0.45:
            return sign + "0" * k + _plain_pos(r, dbl), family
        if x < 0.70:
            return "%s%d.%de%s%s%d" % (sign, r.randrange(1, 10), r.randrange(0, 1000), r.choice(("", "-", "+")), "0" * k, r.randrange(0, rng10)), family
        if x < 0.90:
            return "%s%s.%s%s" % (sign, "0" * k, "0" * r.randrange(0, 12), _digits(r, r.randrange(1, 9))), family
        return sign + "0" * (k + 1), family
    if family == "dot-edge":
        d = _digits(r, r.randrange(1, 8), first_nonzero=False)
        ex = r.choice(("", "", "e%d" % r.randrange(0, rng10), "e-%d" % r.randrange(0, rng10), "E+%d" % r.randrange(0, rng10)))
        return sign + r.choice(("." + d, d + ".", "0." + d, d + ".0", "0.", ".0")) + ex, family
    if family == "exp-marker":
        mant = r.choice((_digits(r, r.randrange(1, 6)), "%d.%s" % (r.randrange(0, 100), _digits(r, r.randrange(1, 7), False)),
                         "." + _digits(r, r.randrange(1, 6), False), _digits(r, r.randrange(1, 4)) + "."))
        return "%s%s%s%s%d" % (sign, mant, r.choice("eE"), r.choice(("", "+", "-")), r.choice((0, 1, r.randrange(0, rng10)))), family
    if family == "long-digits":
        n = r.choice((40, 60, 100, 200, 400, 800)) + r.randrange(0, 20)
        k = r.randrange(-rng10, rng10)  # decimal order of the value
        x = r.random()
        if x < 0.25:  # n significant digits, exponent brings the value into the range
            ds = _digits(r, n)
            cut = r.randrange(0, n + 1)
            lit = (ds[:cut] or "0") + "." + ds[cut:] + "e%d" % (k - cut + 1)
        elif x < 0.45:  # 0.000...0ddd e+Z
            z = n
            lit = "0." + "0" * z + _digits(r, r.randrange(1, 20)) + ("e%s%d" % (r.choice(("", "+")), z + k) if z + k >= 0 else "e%d" % (z + k))
        elif x < 0.65:  # d000...0 e-Z
            z = n
            lit = _digits(r, r.randrange(1, 20)) + "0" * z + r.choice(("", ".", ".000")) + "e%d" % (k - z)
        elif x < 0.80:  # short value, long tail of zeros
            lit = _plain_pos(r, dbl).split("e")[0]
            lit = (lit if "." in lit else lit + ".") + "0" * n
        else:  # the complete decimal expansion of a random finite value of the type (and of its neighbourhood)
            if dbl:
                v = struct.unpack("<d", struct.pack("<Q", (r.randrange(1, 2046) << 52) | r.getrandbits(52)))[0]
            else:
                v = struct.unpack("<f", struct.pack("<I", (r.randrange(1, 254) << 23) | r.getrandbits(23)))[0]
            lit = _shape(exact_decimal(Fraction(v)), r)
        return sign + lit, family
    if family in ("denormal", "underflow"):
        if family == "underflow" and r.random() < 0.6:
            x = r.random()
            if x < 0.3:
                lit = "%d.%se-%d" % (r.randrange(1, 10), _digits(r, r.randrange(0, 6), False), r.randrange(330 if dbl else 47, 420))
            elif x < 0.5:
                lit = "%de-%d" % (r.randrange(1, 1000), r.choice((999, 4951, 99999, 2 ** 31, 2 ** 32 + 5, 2 ** 63, 2 ** 64 + 1, 10 ** 25)))
            elif x < 0.75:
                lit = "0." + "0" * r.randrange(330 if dbl else 50, 700) + _digits(r, r.randrange(1, 10))
            else:
                lit = _shape(_BIGCTX.multiply(exact_decimal(min_sub / 2), _eps(r, False)), r, r.randrange(17, 40))
        else:
            m = r.choice((0, 0, 1, 1, 2, 3, r.randrange(2 ** (p - 1)), r.randrange(2 ** (p - 1)), 2 ** (p - 1) - 1, 2 ** (p - 1), 2 ** (p - 1) + 1))
            if family == "underflow":
                m = 0
            x = r.random()
            if m and x < 0.4:  # the subnormal itself (or the smallest normals), complete or shortened
                lit = _shape(exact_decimal(m * min_sub), r, r.choice((None, 9 if not dbl else 17, r.randrange(17, 40))))
            elif x < 0.6:  # exact tie between m and m+1 units
                lit = _shape(exact_decimal((2 * m + 1) * min_sub / 2), r)
            else:
                up = r.random() < 0.5 if family == "denormal" else False
                lit = _shape(_BIGCTX.multiply(exact_decimal((2 * m + 1) * min_sub / 2), _eps(r, up)), r, r.randrange(17, 40))
        lit = sign + lit
        zero = (f64_bits(lit) << 1) & ((1 << 64) - 1) == 0 if dbl else (f32_bits(lit) << 1) & 0xFFFFFFFF == 0
        return lit, ("underflow" if zero else "denormal")
    if family == "overflow":
        x = r.random()
        if x < 0.25:
            lit = "%d.%se%s%d" % (r.randrange(1, 10), _digits(r, r.randrange(0, 6), False), r.choice(("", "+")),
                                  r.choice((309, 310, 400, 999)) if dbl else r.choice((39, 40, 45, 100, 300, 308, 309, 999)))
        elif x < 0.40:
            lit = "%de%s%d" % (r.randrange(1, 1000), r.choice(("", "+")), r.choice((4951, 99999, 2 ** 31, 2 ** 32 + 5, 2 ** 63, 2 ** 64 + 1, 10 ** 25)))
        elif x < 0.60:
            lit = _digits(r, r.randrange(310 if dbl else 40, 420)) + r.choice(("", ".", ".0", ".5"))
        elif x < 0.75:
            lit = _shape(exact_decimal(threshold), r)
        else:
            lit = _shape(_BIGCTX.multiply(exact_decimal(threshold), _eps(r, True)), r, r.randrange(17, 40))
            if literal_value(lit)[1] < threshold:  # shortened below the tie
                lit = _shape(exact_decimal(threshold), r)
        return sign + lit, family
    if family == "overflow-edge":
        x = r.random()
        if x < 0.3:
            lit = _shape(exact_decimal(max_fin), r, r.choice((None, None, 17 if dbl else 9)))
        else:
            lit = _shape(_BIGCTX.multiply(exact_decimal(threshold), _eps(r, False)), r, r.randrange(20, 60))
        if literal_value(lit)[1] >= threshold:  # rounding of the literal carried it onto the tie
            lit = _shape(exact_decimal(max_fin), r)
        return sign + lit, family
    if family == "mixed-spelling":
        sg = r.choice(("", "-", "+", "+"))
        z = "0" * r.choice((0, 0, 1, 3))
        ip = _digits(r, r.choice((0, 1, 1, 2, 5, 25)))
        fp = _digits(r, r.choice((0, 1, 3, 8, 30)), False)
        if not ip and not fp:
            ip = "7"
        mant = z + ip + ("." if (fp or r.random() < 0.5 or not (z + ip)) else "") + fp
        if mant == ".":
            mant = "0."
        order = len(ip)
        lo, hi = -rng10 - order, rng10 - order
        e = r.randrange(lo, hi)
        ex = "" if r.random() < 0.3 else "%s%s%s%d" % (r.choice("eE"), "-" if e < 0 else r.choice(("", "+")), "0" * r.choice((0, 0, 2)), abs(e))
        return sg + mant + ex, family
    raise OracleError("unknown family " + family)


# Families that are *executed and counted, never judged*: no document fixes their meaning (see notes). For each the
# reading of the C library conversions (strtof/strtod/strtoull base 0) is computed here exactly, only to classify
# what was observed as "c-reading" or "other-reading".
OBSERVE_FAMILIES = ("hexfloat", "nan", "infinity-word", "inf-case", "space-before-float", "int-leading-zero", "int-0X",
                    "int-neg-hex", "int-out-of-width", "int-over-2^64", "int-space-before")


def observe_case(r):
    """Returns (text, family, predicate(data bytes) -> bool for the C-library reading)."""
    fam = r.choice(OBSERVE_FAMILIES)
    big = r.random() < 0.4
    pre = b"$" if big else b""
    tail = r.choice((b" A5", b"\nA5", b" ", b"", b" \"z\""))
    tail_bytes = {b" A5": b"\xa5", b"\nA5": b"\xa5", b" ": b"", b"": b"", b" \"z\"": b"z"}[tail]
    order = "big" if big else "little"
    if fam.startswith("int-"):
        w = r.choice((1, 2, 3, 4))
        size = 1 << (w - 1)
        bits = 8 * size
        if fam == "int-leading-zero":
            lit = r.choice(("0", "00", "000")) + r.choice(("7", "17", "8", "9", "19", "777", "010", str(r.randrange(0, 1 << min(bits, 30)))))
            mo = re.match(r"0[0-7]*", lit)
            v = int(mo.group(0), 8)
            # C base-0: what follows the octal prefix is read on as hex nybbles by the data-string syntax
            rest = lit[len(mo.group(0)):]
            if rest:
                return pre + b"#" * w + lit.encode() + tail, fam, None
        elif fam == "int-0X":
            v = r.randrange(1 << bits)
            lit = "0X%X" % v
        elif fam == "int-neg-hex":
            v = -r.randrange(0, (1 << (bits - 1)) + 1)
            lit = "-0x%x" % -v
        elif fam == "int-out-of-width":
            v = r.choice(((1 << bits), (1 << bits) + r.randrange(1 << bits), -(1 << (bits - 1)) - 1 - r.randrange(1 << (bits - 1)),
                          -(1 << bits) - r.randrange(256))) if bits < 64 else -(1 << 63) - 1 - r.randrange(1 << 62)
            lit = str(v)
        elif fam == "int-over-2^64":
            v = r.choice((TWO64, TWO64 + r.randrange(1 << 64), 10 ** r.randrange(20, 60) + r.randrange(10 ** 9), -TWO64 - r.randrange(10 ** 9)))
            lit = str(v)
        else:
            v = r.randrange(1 << bits)
            lit = r.choice((" ", "  ", "\t")) + str(v)
        if abs(v) >= TWO64:
            v = TWO64 - 1  # strtoull saturates (also for the negated form)
        want = pre.replace(b"$", b"") + (v % (1 << bits)).to_bytes(size, order) + tail_bytes
        return pre + b"#" * w + lit.encode() + tail, fam, (lambda d, want=want: d == want)
    dbl = r.random() < 0.5
    p, emin, nbytes = _FMT[dbl]
    sg = r.choice(("", "", "-", "+"))
    if fam == "hexfloat":
        x = r.random()
        mant = r.choice(("1", "1.8", "1.%x" % r.getrandbits(40), ".8", "%x" % r.getrandbits(30), "f.ffffffffffffffffff", "0.0000000001", "1."))
        ex = r.choice((0, 1, -1, 10, -10, -149, -1074, 127, 128, 1023, 1024, -1100, r.randrange(-1100, 1100)))
        lit = sg + r.choice(("0x", "0X")) + mant + ("" if x < 0.15 else "%s%s%d" % (r.choice("pP"), "-" if ex < 0 else r.choice(("", "+")), abs(ex)))
        bits = f64_bits(lit) if dbl else f32_bits(lit)
        want = bits.to_bytes(nbytes, order) + tail_bytes
        pred = lambda d, want=want: d == want
    elif fam == "nan":
        lit = sg + r.choice(("nan", "NaN", "NAN", "nan()", "nan(0x7ff)", "nan(abc_1)", "NAN(1)"))
        expmask = ((0x7FF << 52), (1 << 52) - 1) if dbl else ((0xFF << 23), (1 << 23) - 1)

        def pred(d, nbytes=nbytes, order=order, expmask=expmask, tail_bytes=tail_bytes):
            if len(d) != nbytes + len(tail_bytes) or d[nbytes:] != tail_bytes:
                return False
            b = int.from_bytes(d[:nbytes], order)
            return b & expmask[0] == expmask[0] and b & expmask[1] != 0
    else:
        if fam == "infinity-word":
            lit = sg + r.choice(("infinity", "Infinity", "INFINITY"))
        elif fam == "inf-case":
            lit = sg + r.choice(("INF", "Inf", "iNf"))
        else:
            lit = r.choice((" ", "  ", "\t", "\n")) + sg + _plain_pos(r, dbl)
        bits = f64_bits(lit) if dbl else f32_bits(lit)
        want = bits.to_bytes(nbytes, order) + tail_bytes
        pred = lambda d, want=want: d == want
    return pre + (b"%%" if dbl else b"%") + lit.encode() + tail, fam, pred


def f64_bytes(text, big):
    return f64_bits(text).to_bytes(8, "big" if big else "little")


def ref_parse(t):
    """Returns (data, mask) for a text without NUL bytes."""
    out = bytearray()
    mask = bytearray()
    big = False
    enabled = True
    high = None
    i, n = 0, len(t)

    def emit(b):
        out.extend(b)
        mask.extend((b"\xff" if enabled else b"\x00") * len(b))

    while i < n:
        c = t[i]
        if c == 0x2F and t.startswith(b"//", i):
            j = t.find(b"\n", i)
            i = n if j < 0 else j + 1
        elif c == 0x2F and t.startswith(b"/*", i):
            j = t.find(b"*/", i + 2)
            i = n if j < 0 else j + 2
        elif c == 0x22 or c == 0x27:  # " or '
            wide = c == 0x27
            i += 1
            while i < n and t[i] != c:
                ch = t[i]
                if ch == 0x5C:
                    if i + 1 >= n:
                        return bytes(out), bytes(mask)  # dangling backslash: text ends inside the string
                    ch = t[i + 1]
                    ch = _SIMPLE_ESC.get(ch, ch)
                    i += 2
                else:
                    i += 1
                if wide:
                    emit(struct.pack(">H" if big else "<H", ch))
                else:
                    emit(bytes([ch]))
            i += 1
        elif c == 0x3F:
            enabled = not enabled
            i += 1
        elif c == 0x24:
            big = not big
            i += 1
        elif c == 0x23:
            w = 0
            while w < 4 and i < n and t[i] == 0x23:
                w += 1
                i += 1
            size = 1 << (w - 1)
            m = _INT_RE.match(t, i)
            v = 0
            if m:
                digits = m.group(2)
                end = m.end()
                if digits[:2].lower() == b"0x":
                    v = int(digits[2:], 16)
                elif len(digits) > 1 and digits[:1] == b"0":
                    # C base-0 conversion: a leading 0 means octal and stops at the first non-octal digit
                    mo = re.match(rb"0[0-7]*", digits)
                    v = int(mo.group(0), 8)
                    end = m.start(2) + len(mo.group(0))
                else:
                    v = int(digits)
                i = end
                if v >= TWO64:
                    v = TWO64 - 1
                elif m.group(1) == b"-":
                    v = (-v) % TWO64
            v %= 1 << (8 * size)
            emit(v.to_bytes(size, "big" if big else "little"))
        elif c == 0x25:
            i += 1
            dbl = i < n and t[i] == 0x25
            if dbl:
                i += 1
            m = _FLT_RE.match(t, i)
            lit = "0"
            if m:
                lit = m.group(1).decode()
                i = m.end()
            if dbl:
                emit(f64_bytes(lit, big))
            else:
                emit(f32_bits(lit).to_bytes(4, "big" if big else "little"))
        else:
            v = -1
            if 0x30 <= c <= 0x39:
                v = c - 0x30
            elif 0x41 <= c <= 0x46:
                v = c - 0x41 + 10
            elif 0x61 <= c <= 0x66:
                v = c - 0x61 + 10
            if v >= 0:
                if high is None:
                    high = v
                else:
                    emit(bytes([(high << 4) | v]))
                    high = None
            i += 1
    return bytes(out), bytes(mask)


# -------------------------------------------------------------------------------------------------
# grammar generator: well-formed texts only; builds the expected bytes constructively as well

_WS = [b" ", b" ", b" ", b"\n", b"\t", b"\r\n", b"  "]
_COMMENT_CHARS = b"abcdefghijklmnopqrstuvwxyz 0123456789\"'#$%?\\<>ABCDEF.,;:-+_()[]{}!@^&=~`|\t"


class TextBuilder:
    def __init__(self, rng):
        self.r = rng
        self.text = bytearray()
        self.data = bytearray()
        self.mask = bytearray()
        self.spans = []  # (start, end, item name)
        self.alts = []  # (start, end, [other byte strings the statement also allows there])
        self.no_final_ws = False
        self.big = False
        self.enabled = True
        self.items = set()

    def emit(self, b, name, alts=None):
        self.spans.append((len(self.data), len(self.data) + len(b), name))
        if alts:
            self.alts.append((len(self.data), len(self.data) + len(b), alts))
        self.data.extend(b)
        self.mask.extend((b"\xff" if self.enabled else b"\x00") * len(b))
        self.items.add("%s:%s:%s" % (name, "be" if self.big else "le", "on" if self.enabled else "off"))

    def ws(self, at_least_one=False):
        r = self.r
        k = r.choice((0, 0, 1, 1, 1, 2)) if not at_least_one else r.choice((1, 1, 2))
        for _ in range(k):
            self.text.extend(r.choice(_WS))

    # items ------------------------------------------------------------------------------------
    def hexbytes(self):
        r = self.r
        k = r.choice((1, 1, 2, 3, 4, 8, 17))
        for _ in range(k):
            b = r.choice((0, 0xFF, 0x7F, 0x80, r.randrange(256), r.randrange(256)))
            s = ("%02X" if r.random() < 0.6 else "%02x") % b
            if r.random() < 0.15:
                s = s[0] + r.choice((" ", "\n", "\t")) + s[1]  # white space between the two nybbles
            self.text.extend(s.encode())
            if r.random() < 0.5:
                self.text.extend(b" ")
            self.emit(bytes([b]), "hex")

    def _str_chars(self, wide):
        r = self.r
        q = 0x27 if wide else 0x22
        k = r.choice((0, 1, 1, 2, 3, 5, 8, 20))
        for _ in range(k):
            x = r.random()
            if x < 0.30:
                esc, val = r.choice(((b"\\n", 10), (b"\\r", 13), (b"\\t", 9), (b"\\\"", 0x22), (b"\\'", 0x27),
                                     (b"\\\\", 0x5C), (b"\\\\", 0x5C)))
                yield esc, val
            else:
                if wide or x < 0.8:
                    ch = r.randrange(0x20, 0x7F)
                else:
                    ch = r.choice((9, 10, 13, 0x80, 0xFF, 0x7F, 1, r.randrange(1, 256)))
                if ch == q or ch == 0x5C:
                    ch = 0x41
                yield bytes([ch]), ch

    def dq(self):
        self.text.extend(b'"')
        any_ = False
        for src, val in self._str_chars(False):
            self.text.extend(src)
            self.emit(bytes([val]), "dq-escape" if len(src) == 2 else "dq-char")
            any_ = True
        if not any_:
            self.items.add("dq-empty")
        self.text.extend(b'"')

    def sq(self):
        self.text.extend(b"'")
        for src, val in self._str_chars(True):
            self.text.extend(src)
            self.emit(struct.pack(">H" if self.big else "<H", val), "sq-escape" if len(src) == 2 else "sq-char")
        self.text.extend(b"'")

    def toggle_mask(self):
        self.text.extend(b"?")
        self.enabled = not self.enabled
        self.items.add("mask-toggle")

    def toggle_endian(self):
        self.text.extend(b"$")
        self.big = not self.big
        self.items.add("endian-toggle")

    def integer(self, last=False):
        r = self.r
        w = r.choice((1, 2, 3, 4))
        size = 1 << (w - 1)
        bits = 8 * size
        form = r.choice(("dec", "dec", "neg", "hex", "edge", "plus"))
        if form == "plus":  # an explicit plus sign on a decimal or 0x literal
            v = r.choice((0, 1, (1 << bits) - 1, r.randrange(1 << bits), r.randrange(1 << r.randrange(1, bits + 1))))
            lit = "+" + (str(v) if r.random() < 0.7 else "0x%X" % v)
        elif form == "neg":
            v = -r.choice((1, 1 << (bits - 1), r.randrange(1, (1 << (bits - 1)) + 1)))
            lit = str(v)
        elif form == "hex":
            v = r.choice((0, (1 << bits) - 1, r.randrange(1 << bits)))
            lit = ("0x%X" if r.random() < 0.5 else "0x%x") % v
        elif form == "edge":
            v = r.choice((0, 1, (1 << bits) - 1, (1 << (bits - 1)), (1 << (bits - 1)) - 1, 10, 255, 256))
            v %= 1 << bits
            lit = str(v) if v or r.random() < 0.7 else "-0"
        else:
            v = r.randrange(1 << r.randrange(1, bits + 1))
            lit = str(v)
        self.text.extend(b"#" * w + lit.encode())
        self.emit((v % (1 << bits)).to_bytes(size, "big" if self.big else "little"), "int%d-%s" % (bits, "plus" if form == "plus" else "neg" if v < 0 else "hex" if form == "hex" else "dec"))
        self._after_number(last)

    def _float_literal(self, dbl):
        r = self.r
        x = r.random()
        if x < 0.25:
            return "%s%d.%0*d" % (r.choice(("", "-")), r.randrange(0, 3000), r.randrange(1, 5), r.randrange(0, 1000))
        if x < 0.40:
            return str(r.randrange(-100000, 100000))
        if x < 0.55:
            return "%s%d.%de%s%d" % (r.choice(("", "-")), r.randrange(1, 10), r.randrange(0, 100000), r.choice(("", "-", "+")),
                                     r.randrange(0, 300 if dbl else 37))
        if x < 0.60:
            return r.choice(("inf", "-inf", "0", "-0.0", "1e-40" if not dbl else "1e-310", ".5", "5.", "1E3"))
        if dbl:
            bits = r.getrandbits(64)
            v = struct.unpack("<d", struct.pack("<Q", bits))[0]
            if math.isnan(v) or math.isinf(v):
                v = 1.5
            return "%.17g" % v
        bits = r.getrandbits(32)
        v = struct.unpack("<f", struct.pack("<I", bits))[0]
        if math.isnan(v) or math.isinf(v):
            v = 1.5
        return "%.9g" % v

    def _after_number(self, last):
        # a number is ended by white space or, when it is the last item, possibly by the end of the text
        if last and self.r.random() < 0.5:
            self.no_final_ws = True
            self.items.add("number-at-end-of-text")
        else:
            self.ws(True)

    def floating(self, last=False):
        r = self.r
        dbl = r.random() < 0.5
        suffix = ""
        x = r.random()
        if x < 0.3:
            lit, kind = midpoint_literal(r, dbl)
            suffix = "-midpoint"
            self.items.add("midpoint:%s:%s" % ("double" if dbl else "float", kind))
        elif x < 0.65:
            lit, fam = spelling_literal(r, dbl, r.choice(SPELLING_FAMILIES))
            suffix = "-" + fam
        else:
            lit = self._float_literal(dbl)
        p, emin, nbytes = _FMT[dbl]
        neg, a = literal_value(lit)
        mag = round_binary(a, p, emin)
        inf = (2 * (1 - emin) + 1) << (p - 1)
        sbit = (1 << (8 * nbytes - 1)) if neg else 0
        order = "big" if self.big else "little"
        alts = None
        if mag == inf and "inf" not in lit.lower():
            # magnitude beyond the largest finite value: no document says what it becomes -> infinity or largest finite
            suffix = "-overflow"
            alts = [(sbit | (inf - 1)).to_bytes(nbytes, order)]
        elif mag == 0 and (a is _ZERO or a != 0):
            # non-zero magnitude that rounds to zero: the sign of the zero is not demanded
            suffix = "-underflow"
            alts = [(sbit ^ (1 << (8 * nbytes - 1))).to_bytes(nbytes, order)]
        libc_selfcheck(lit, dbl)
        self.text.extend((b"%%" if dbl else b"%") + lit.encode())
        self.emit((sbit | mag).to_bytes(nbytes, order), ("double" if dbl else "float") + suffix, alts)
        self._after_number(last)

    def line_comment(self, last):
        r = self.r
        body = bytes(r.choice(_COMMENT_CHARS) for _ in range(r.randrange(0, 30)))
        self.text.extend(b"//" + body)
        if not last or r.random() < 0.5:
            self.text.extend(b"\n")
        self.items.add("comment-line")

    def block_comment(self):
        r = self.r
        body = bytes(r.choice(_COMMENT_CHARS + b"\n*/") for _ in range(r.randrange(0, 30)))
        body = body.replace(b"*/", b"* ")
        if body.startswith(b"/"):
            body = b" " + body
        self.text.extend(b"/*" + body + b"*/")
        self.items.add("comment-block")


def gen_text(rng):
    b = TextBuilder(rng)
    nitems = rng.choice((1, 2, 3, 4, 6, 9, 14))
    choices = ("hex", "hex", "dq", "dq", "sq", "mask", "mask", "endian", "int", "int", "float", "float", "lc", "bc")
    for k in range(nitems):
        b.ws()
        it = rng.choice(choices)
        if it == "hex":
            b.hexbytes()
        elif it == "dq":
            b.dq()
        elif it == "sq":
            b.sq()
        elif it == "mask":
            b.toggle_mask()
        elif it == "endian":
            b.toggle_endian()
        elif it == "int":
            b.integer(k == nitems - 1)
        elif it == "float":
            b.floating(k == nitems - 1)
        elif it == "lc":
            b.line_comment(k == nitems - 1)
        else:
            b.block_comment()
    if not b.no_final_ws:
        b.ws()
    return b


FIXED_TEXTS = [
    # the documented example of the unit test, and small single-construct texts
    b"/* omit 01 02 */ 03 ?04? $ ##30 $ ##127 ?\"dark\"? ###-1 'cold' %-1.667 %%-2.667",
    b"", b" ", b"00", b"\"\"", b"''", b"\"\\\\\"", b"\"a\\\\b\"", b"'\\\\'", b"$ 'A' $ 'A'", b"#1 ##1 ###1 ####1 ",
    b"$ #1 ##1 ###1 ####1 ", b"%1 %%1 $ %1 %%1 ",
    # just above the midpoint of 1 and 1+2^-23: a text->double->float conversion rounds it down to 1.0
    b"%1.00000005960464478 $ %1.00000005960464478 ", b"%-1.0000001788139343262 %1.0000001788139343261 ",
    b"%%1.00000000000000011102230246251565404236316680908203126 %%1.00000000000000011102230246251565404236316680908203124 ", b"? 00 ? 00", b"// only a comment", b"/* only a comment */",
    # spellings of ordinary decimal literals: explicit plus sign, leading zeros, leading/trailing point, E/e with signed exponents,
    # a number ended by the end of the text
    b"%+1.5 $ %+1.5 %%+2.5 $ 01 %+1.5 02", b"%007.50 %%-000.25 %1E+2 %1e-02 %%1.E+002 %.5 %5. %-.5e1 %+5.e-1",
    b"#+5 ##+0x1F ###+0 ####+18446744073709551615 #-0 ", b"$ %%+1e+300", b"%+inf %%+inf %-inf",
    b"%1.40129846432481707092372958328991613128026194187651577175706828388979108268586060148663818836212158203125e-45",
    b"%%4.9406564584124654e-324 %%2.2250738585072011e-308 %3.4028234663852886e38 %%1.7976931348623157e308 %340282356779733661637539395458142568447.9",
]


def judge_grammar_case(text, exp_data, exp_mask, spans, status, got_data, got_mask, alts=()):
    """Returns None or (key, what)."""
    if status != 0:
        return ("parse:grammar:throws", "parse_data_string threw on a well-formed text: %r" % got_data[:200])
    if alts and got_data != exp_data:
        # spans where the statement allows more than one byte string (overflowing / underflowing float literals)
        g = bytearray(got_data)
        for s, e, others in alts:
            if e <= len(g) and g[:s] == exp_data[:s] and bytes(g[s:e]) in others:
                g[s:e] = exp_data[s:e]
        got_data = bytes(g)
    if got_data != exp_data:
        k = 0
        lim = min(len(got_data), len(exp_data))
        while k < lim and got_data[k] == exp_data[k]:
            k += 1
        item = "trailing" if spans else "fixed-text"
        for s, e, name in spans:
            if s <= k < e:
                item = name
                break
        else:
            if k >= len(exp_data):
                item = "extra-output"
        return ("parse:grammar:%s:bytes" % item, "bytes differ from the syntax definition at output offset %d" % k)
    if got_mask != exp_mask:
        k = 0
        lim = min(len(got_mask), len(exp_mask))
        while k < lim and got_mask[k] == exp_mask[k]:
            k += 1
        item = "size"
        for s, e, name in spans:
            if s <= k < e:
                item = name
                break
        return ("parse:grammar:%s:mask" % item, "mask differs at output offset %d" % k)
    return None


# =================================================================================================
# 2. hex dump decoder

_SGR = re.compile(rb"\x1b\[([0-9;]*)m")
_HEXD = b"0123456789ABCDEFabcdef"
_ADDR = re.compile(rb"[0-9A-Fa-f]+")
RED, INV = 1, 2


def strip_sgr(line):
    """Returns (visible bytes, per-char attribute list or None if there was no escape)."""
    if b"\x1b" not in line:
        return line, None
    vis = bytearray()
    attrs = []
    cur = 0
    pos = 0
    for m in _SGR.finditer(line):
        chunk = line[pos:m.start()]
        vis.extend(chunk)
        attrs.extend([cur] * len(chunk))
        for p in (m.group(1) or b"0").split(b";"):
            code = int(p or b"0")
            if code == 0:
                cur = 0
            elif code == 31:
                cur |= RED
            elif code == 7:
                cur |= INV
            # 1 (bold) and anything else: no effect on what the oracle records
        pos = m.end()
    chunk = line[pos:]
    vis.extend(chunk)
    attrs.extend([cur] * len(chunk))
    return bytes(vis), attrs


def reaches_2_64(addr, n):
    return n > 0 and addr + n > TOP_LINE


def judge_dump(addr, flags, data, prev, status, out, classes):
    """Decode `out` and compare with the dumped bytes. Returns list of (kind, what). `classes` (dict) gets coverage marks."""
    n = len(data)
    bad = []

    def cls(k):
        classes[k] = classes.get(k, 0) + 1

    if status != 0:
        msg = out.decode(errors="replace")
        kind = "throws-reads-exceeded-final-iov" if "exceeded final" in msg else "throws-other"
        return [(kind, "format_data threw on a valid buffer: " + msg)]
    if n == 0:
        if out != b"":
            bad.append(("output-for-empty-buffer", "empty buffer rendered as %r" % out[:80]))
        cls("dump:empty-buffer")
        return bad
    if out == b"":
        return [("prints-nothing", "non-empty buffer rendered as the empty string")]
    use_color = bool(flags & USE_COLOR)
    if not use_color and b"\x1b" in out:
        bad.append(("escape-without-USE_COLOR", "terminal escape in output although USE_COLOR is not set"))
    if out and not out.endswith(b"\n"):
        return bad + [("line-shape", "output does not end with a newline")]
    lines = out.split(b"\n")[:-1] if out else []
    first_line = addr & ~15
    last_line = (addr + n - 1) & ~15
    nlines = ((last_line - first_line) >> 4) + 1
    skipsep = bool(flags & SKIP_SEP)
    want_ascii, want_float, want_double = bool(flags & PRINT_ASCII), bool(flags & PRINT_FLOAT), bool(flags & PRINT_DOUBLE)
    big = bool(flags & (REVERSE_ENDIAN | BIG_ENDIAN))  # host is little-endian; REVERSE = swapped = big
    seen_lines = {}
    decoded = {}
    prev_la = -1
    any_red = False
    for ln in lines:
        vis, attrs = strip_sgr(ln)
        m = _ADDR.match(vis)
        if not m:
            bad.append(("line-shape", "no address column in line %r" % vis[:60]))
            continue
        la = int(m.group(0), 16)
        pos = m.end()
        if not skipsep:
            if vis[pos:pos + 2] != b" |":
                bad.append(("line-shape", "no ' |' after the address in %r" % vis[:60]))
                continue
            pos += 2
        if la & 15 or la < first_line or la > last_line:
            bad.append(("address-column", "line address 0x%X is not a 16-byte line of the dumped range" % la))
            continue
        if la <= prev_la:
            bad.append(("address-column", "line address 0x%X repeated or out of order" % la))
            continue
        prev_la = la
        seen_lines[la] = True
        cells_at = pos
        cells = vis[pos:pos + 48]
        if len(cells) != 48:
            bad.append(("line-shape", "hex area shorter than 16 cells at line 0x%X" % la))
            continue
        present = [False] * 16
        shape_ok = True
        for col in range(16):
            cell = cells[3 * col:3 * col + 3]
            a = la + col
            if cell == b"   ":
                continue
            if cell[0] != 0x20 or cell[1] not in _HEXD or cell[2] not in _HEXD:
                bad.append(("line-shape", "bad hex cell %r at 0x%X" % (cell, a)))
                shape_ok = False
                break
            present[col] = True
            v = int(cell[1:], 16)
            if a < addr or a >= addr + n:
                bad.append(("hex-cell-outside-range", "cell at 0x%X shows %02X but the address is outside the dumped range" % (a, v)))
                continue
            decoded[a] = v
            if v != data[a - addr]:
                bad.append(("hex-cell-wrong-byte", "cell at 0x%X shows %02X, dumped byte is %02X" % (a, v, data[a - addr])))
            red = bool(attrs and (attrs[cells_at + 3 * col + 1] & RED) and (attrs[cells_at + 3 * col + 2] & RED))
            anyred_cell = bool(attrs and ((attrs[cells_at + 3 * col + 1] | attrs[cells_at + 3 * col + 2]) & RED))
            differs = use_color and prev is not None and prev[a - addr] != data[a - addr]
            if anyred_cell and not differs:
                bad.append(("highlight:hex:unchanged-byte-highlighted", "cell at 0x%X highlighted but equals the previous buffer" % a))
            elif differs and not red:
                bad.append(("highlight:hex:changed-byte-not-highlighted", "cell at 0x%X differs from the previous buffer but is not highlighted" % a))
            any_red = any_red or red
        if not shape_ok:
            continue
        pos += 48
        if want_ascii:
            sep = b" " if skipsep else b" | "
            if vis[pos:pos + len(sep)] != sep:
                bad.append(("line-shape", "ASCII separator missing at line 0x%X" % la))
                continue
            pos += len(sep)
            asc = vis[pos:pos + 16]
            if len(asc) != 16:
                bad.append(("line-shape", "ASCII column shorter than 16 at line 0x%X" % la))
                continue
            for col in range(16):
                ch = asc[col]
                a = la + col
                if not present[col] or not (addr <= a < addr + n):
                    if ch != 0x20:
                        bad.append(("ascii-column", "ASCII column shows %r at 0x%X where no byte is dumped" % (chr(ch), a)))
                    continue
                b = data[a - addr]
                want = b if 0x20 <= b <= 0x7E else 0x20
                if ch != want:
                    bad.append(("ascii-column", "byte %02X at 0x%X shown as %r in the ASCII column" % (b, a, chr(ch))))
                red = bool(attrs and attrs[pos + col] & RED)
                differs = use_color and prev is not None and prev[a - addr] != b
                # a non-printable byte is drawn as an inverse blank whose own reset also ends the red attribute
                # *after* the blank, so the attribute on the character itself is what counts
                if red and not differs:
                    bad.append(("highlight:ascii:unchanged-byte-highlighted", "ASCII char at 0x%X highlighted but equals the previous buffer" % a))
                elif differs and not red:
                    bad.append(("highlight:ascii:changed-byte-not-highlighted", "ASCII char at 0x%X differs but is not highlighted" % a))
            pos += 16
        for want, width, fmtc, name in ((want_float, 4, "f", "float"), (want_double, 8, "d", "double")):
            if not want:
                continue
            sep = b" " if skipsep else b" |"
            if vis[pos:pos + len(sep)] != sep:
                bad.append(("line-shape", "%s separator missing at line 0x%X" % (name, la)))
                pos = -1
                break
            pos += len(sep)
            nf = 16 // width
            area = vis[pos:pos + 13 * nf]
            if len(area) != 13 * nf:
                bad.append(("line-shape", "%s column has wrong width at line 0x%X" % (name, la)))
                pos = -1
                break
            for k in range(nf):
                cols = range(k * width, (k + 1) * width)
                if not all(present[c] and addr <= la + c < addr + n for c in cols):
                    continue  # partially covered field: nothing demanded
                raw = bytes(data[la + c - addr] for c in cols)
                v = struct.unpack((">" if big else "<") + fmtc, raw)[0]
                if math.isnan(v) or math.isinf(v):
                    cls("dump:%s:non-finite-field-skipped" % name)
                    continue
                wantf = b" " + ("%12.5g" % v).encode()
                if area[13 * k:13 * k + 13] != wantf:
                    bad.append(("%s-column" % name, "%s field at 0x%X is %r, expected %r for bytes %s" % (
                        name, la + k * width, area[13 * k:13 * k + 13], wantf, raw.hex())))
                cls("dump:%s:finite-field-checked:%s" % (name, "be" if big else "le"))
            pos += 13 * nf
        if pos < 0:
            continue
        if pos != len(vis):
            bad.append(("line-shape", "unexpected trailing text %r at line 0x%X" % (vis[pos:pos + 40], la)))
    # which lines are there
    collapse = bool(flags & COLLAPSE)
    omitted = 0
    la = first_line
    for k in range(nlines):
        la = first_line + 16 * k
        interior = 0 < k < nlines - 1
        zero = False
        if interior:
            off = la - addr
            zero = not any(data[off:off + 16]) and (prev is None or not any(prev[off:off + 16]))
        if la in seen_lines:
            if collapse and interior and zero:
                bad.append(("collapse:kept-zero-interior-line", "line 0x%X is all-zero, interior, and was printed despite COLLAPSE_ZERO_LINES" % la))
            continue
        omitted += 1
        if not collapse:
            bad.append(("bytes-missing", "line 0x%X of the dumped range is not in the output" % la))
        elif not (interior and zero):
            why = "first/last line" if not interior else "not all-zero in %s" % ("the current buffer" if any(data[la - addr:la - addr + 16]) else "the previous buffer")
            bad.append(("collapse:omitted-nonzero-or-edge-line", "line 0x%X omitted but it is %s" % (la, why)))
    # every byte of every printed line must have been decoded
    for la in seen_lines:
        lo = max(la, addr)
        hi = min(la + 16, addr + n)
        for a in range(lo, hi):
            if a not in decoded:
                bad.append(("bytes-missing", "byte at 0x%X is in the dumped range but its cell is blank" % a))
                break
    # coverage marks
    if omitted and collapse:
        cls("dump:collapse:lines-omitted")
    if collapse and nlines > 2:
        cls("dump:collapse:interior-lines-present")
    if any_red:
        cls("dump:highlight:cells-highlighted")
    if addr & 15:
        cls("dump:partial-first-line")
    if (addr + n) & 15:
        cls("dump:partial-last-line")
    cls("dump:lines:%s" % ("1" if nlines == 1 else "2" if nlines == 2 else "3-8" if nlines <= 8 else "9+"))
    if reaches_2_64(addr, n):
        cls("dump:range-reaches-2^64:%s" % ("ends-at-2^64" if addr + n == TWO64 else "ends-in-last-line"))
    return bad


# =================================================================================================
# 3. stages

def _rd32(buf, p):
    return struct.unpack_from("<I", buf, p)[0], p + 4


def _rdstr(buf, p):
    n, p = _rd32(buf, p)
    return bytes(buf[p:p + n]), p + n


def _flagstr(flags):
    return "|".join(nm for bit, nm in FLAG_NAMES if flags & bit) or "0"


def _new_session():
    """Pool workers and fuzz processes get their own session, as the driver's harness shards do (on hosts with
    sched_autogroup a whole session shares one CPU slice, which starves a 16-process pool on a busy machine)."""
    try:
        os.setsid()
    except OSError:
        pass


def _io_task(a):
    """One (round, shard): generate grammar cases, run the harness, judge its two logs."""
    exe, tier, seed, rnd, shard, nshards, workdir, ntexts = a[:8]
    hist_only = len(a) > 8 and a[8]     # sensitivity runs: only the prior-history log (no random dumps)
    from vf import driver
    res = driver.empty_result()

    prior = [None]    # (name, family) while records of the prior-history log are judged

    def violation(key, what, case):
        if prior[0] is not None:
            # a call made on a fresh thread right after one earlier, unrelated use of phosg's shared helpers
            head, _, rest = key.partition(":")
            key = "%s:prior-history:%s%s" % (head, prior[0][1], ":" + rest if rest else "")
            case = "on a fresh thread after prior [%s]: %s" % (prior[0][0], case)
        res["violation_counts"][key] = res["violation_counts"].get(key, 0) + 1
        if res["violation_counts"][key] <= 3:
            res["violations"].append({"key": key, "what": what, "case": case,
                                      "meta": {"stage": "c09-io", "shard": None}})

    tag = "c09-io-r%d" % rnd
    base = os.path.join(workdir, "%s.%d" % (tag, shard))
    cases_path, res_path, log_path, hist_path = base + ".cases", base + ".res", base + ".dumps", base + ".hist"
    rng = random.Random("c09-grammar-%d-%d-%d" % (seed, rnd, shard))
    builders = []
    with open(cases_path, "wb") as f:
        texts = []
        if shard == 0 and rnd == 0:
            for t in FIXED_TEXTS:
                texts.append((t, None))
        for _ in range(ntexts):
            b = gen_text(rng)
            texts.append((bytes(b.text), b))
        for _ in range(ntexts // 12 + 1):
            texts.append(observe_case(rng))  # (text, family, predicate): executed and counted, never judged
        for case in texts:
            f.write(struct.pack("<I", len(case[0])) + case[0])
        builders = texts
    r = driver.run_shard(exe, tier, seed, shard, nshards, workdir, tag,
                         args=["only=io", "cases=" + cases_path, "res=" + res_path, "round=%d" % rnd] +
                              (["log=" + log_path] if not hist_only else []) + (["histlog=" + hist_path] if rnd == 0 else []),
                         timeout=1500 if tier == "quick" else 7200)
    fatal, ub = driver.parse_sanitizer_log(r["stderr"])
    res["ub_observations"] = ub
    if r["timed_out"]:
        raise driver.Inconclusive("c09-io round %d shard %d: watchdog fired; last case: %s" % (rnd, shard, r["crumb"]))
    if r["rc"] != 0 or r["result"] is None:
        tail = r["stderr"][-3000:]
        if fatal:
            for k, w in fatal:
                violation(k, w, r["crumb"])
                res["violations"][-1]["stderr_tail"] = tail
        elif r["rc"] in (2, 3) or "[harness-error]" in tail:
            raise driver.Inconclusive("c09-io round %d shard %d: harness failure rc=%s\n%s" % (rnd, shard, r["rc"], tail))
        else:
            violation("crash:signal%d" % -r["rc"] if r["rc"] < 0 else "crash:exit%d" % r["rc"], "harness process died", r["crumb"])
            res["violations"][-1]["stderr_tail"] = tail
    else:
        for k, w in fatal:
            violation(k, w, r["crumb"])
        driver.merge(res, r["result"])
    classes = res["classes"]
    # ---- grammar results
    try:
        with open(res_path, "rb") as f:
            buf = f.read()
    except OSError:
        buf = b""
    p = 0
    judged = 0

    def judge_text(case, status, got_data, got_mask, count_classes=True):
        text, b = case[0], case[1]
        if len(case) == 3:
            # a spelling whose meaning no document fixes: only "did not throw" is demanded; what came out is counted
            if status != 0:
                violation("parse:grammar:throws", "parse_data_string threw: %r" % got_data[:200], "parse_data_string(%r)" % text)
                return
            if count_classes:
                k = "observe:%s:%s" % (b, "unclassified" if case[2] is None else "c-library-reading" if case[2](got_data) else "other-reading")
                classes[k] = classes.get(k, 0) + 1
            return
        exp_data, exp_mask = ref_parse(text)
        spans = []
        if b is not None:
            if exp_data != bytes(b.data) or exp_mask != bytes(b.mask):
                raise OracleError("generator and reference parser disagree on %r: %s/%s vs %s/%s" % (
                    text, exp_data.hex(), exp_mask.hex(), bytes(b.data).hex(), bytes(b.mask).hex()))
            spans = b.spans
            if count_classes:
                for it in b.items:
                    classes["grammar:" + it] = classes.get("grammar:" + it, 0) + 1
        elif count_classes:
            classes["grammar:fixed-text"] = classes.get("grammar:fixed-text", 0) + 1
        v = judge_grammar_case(text, exp_data, exp_mask, spans, status, got_data, got_mask, b.alts if b is not None else ())
        if v:
            violation(v[0], v[1], "parse_data_string(%r) = data %s mask %s; syntax defines data %s mask %s" % (
                text, got_data.hex(), got_mask.hex(), exp_data.hex(), exp_mask.hex()))
        elif judged % 5000 == 3 and len(res["samples"]) < 2:
            res["samples"].append("grammar text %r -> %s" % (text[:120], exp_data.hex()[:80]))

    for case in builders:
        if p >= len(buf):
            break
        status = buf[p]
        p += 1
        got_data, p = _rdstr(buf, p)
        got_mask, p = _rdstr(buf, p)
        judged += 1
        judge_text(case, status, got_data, got_mask)
    res["counters"]["grammar_texts_judged"] = judged
    res["evaluations"] += judged
    # ---- dump log
    try:
        with open(log_path, "rb") as f:
            buf = f.read()
    except OSError:
        buf = b""
    nd = 0

    def judge_dump_record(buf, p):
        nonlocal nd
        addr, flags = struct.unpack_from("<QQ", buf, p + 1)
        p += 17
        label, p = _rdstr(buf, p)
        data, p = _rdstr(buf, p)
        has_prev = buf[p]
        p += 1
        prev = None
        if has_prev:
            prev, p = _rdstr(buf, p)
        status = buf[p]
        p += 1
        out, p = _rdstr(buf, p)
        nd += 1
        bad = judge_dump(addr, flags, data, prev, status, out, classes)
        lab = label.decode()
        m = re.match(r"addr=(\S+) data=(\S+) cmode=(\S+)", lab)
        if m:
            k = "dump:%s:%s" % (m.group(1), m.group(3))
            classes[k] = classes.get(k, 0) + 1
            k = "dump:data:%s" % m.group(2)
            classes[k] = classes.get(k, 0) + 1
        for bit, nm in FLAG_NAMES:
            if flags & bit:
                classes["dump:flag:" + nm] = classes.get("dump:flag:" + nm, 0) + 1
        if bad:
            prefix = "format_data:range-reaches-2^64:" if reaches_2_64(addr, len(data)) else "format_data:"
            seen = set()
            for kind, what in bad:
                if kind in seen:
                    continue
                seen.add(kind)
                violation(prefix + kind, what,
                          "format_data(addr=0x%X, flags=0x%X [%s], len=%d, data=%s, prev=%s) [%s] printed %r" % (
                              addr, flags, _flagstr(flags), len(data), data.hex(), prev.hex() if prev is not None else "null",
                              lab, out[:1500]))
        elif nd % 20000 == 5 and len(res["samples"]) < 4:
            res["samples"].append("dump addr=0x%X flags=%s len=%d -> %r" % (addr, _flagstr(flags), len(data), out[:160]))
        return p

    p = 0
    L = len(buf)
    while p < L:
        if buf[p] != 0x44:
            raise OracleError("dump log out of sync at %d" % p)
        p = judge_dump_record(buf, p)
    res["counters"]["dumps_decoded"] = nd
    res["evaluations"] += nd
    # ---- prior-history log: 'P' name family | 'G' index status data mask | 'D' dump record; judged exactly like the
    # records above (reference parser / dump decoder), keys carry the family of the prior that ran first on the thread
    try:
        with open(hist_path, "rb") as f:
            buf = f.read()
    except OSError:
        buf = b""
    p = 0
    L = len(buf)
    nd0 = nd
    nprior = ntext = 0
    try:
        while p < L:
            t = buf[p]
            if t == 0x50:
                name, p = _rdstr(buf, p + 1)
                fam, p = _rdstr(buf, p)
                prior[0] = (name.decode(), fam.decode())
                nprior += 1
                k = "prior:%s:judged-by-python" % prior[0][1]
                classes[k] = classes.get(k, 0) + 1
            elif t == 0x47 and prior[0] is not None:
                ti, p = _rd32(buf, p + 1)
                status = buf[p]
                got_data, p = _rdstr(buf, p + 1)
                got_mask, p = _rdstr(buf, p)
                if ti >= len(builders):
                    raise OracleError("prior-history log names text %d of %d" % (ti, len(builders)))
                ntext += 1
                judge_text(builders[ti], status, got_data, got_mask, count_classes=False)
            elif t == 0x44 and prior[0] is not None:
                p = judge_dump_record(buf, p)
            else:
                raise OracleError("prior-history log out of sync at %d" % p)
    except (struct.error, IndexError):
        if r["rc"] == 0 and not r["timed_out"]:
            raise OracleError("prior-history log truncated although the harness finished")
    prior[0] = None
    res["counters"]["prior_history_priors_judged"] = nprior
    res["counters"]["prior_history_dumps_decoded"] = nd - nd0
    res["counters"]["prior_history_grammar_texts_judged"] = ntext
    res["evaluations"] += (nd - nd0) + ntext
    for pth in (cases_path, res_path, log_path, hist_path):
        try:
            os.unlink(pth)
        except OSError:
            pass
    return res


def stage_io(ctx, st):
    from vf import build, driver
    exe = build.build_harness("c09", "asan")
    tier, seed = ctx["tier"], ctx["seed"]
    nshards = 16
    rounds = 1 if tier == "quick" else 6
    ntexts = (20000 if tier == "quick" else 1000000) // (nshards * rounds) + 1
    tasks = [(exe, tier, seed, rnd, sh, nshards, ctx["workdir"], ntexts) for rnd in range(rounds) for sh in range(nshards)]
    merged = driver.empty_result()
    try:
        with ProcessPoolExecutor(max_workers=min(16, os.cpu_count() or 4), initializer=_new_session) as ex:
            for r in ex.map(_io_task, tasks):
                driver.merge(merged, r)
    except OracleError as e:
        raise driver.Inconclusive("C09 oracle self-check failed: %s" % e)
    merged["extra"]["rounds"] = rounds
    merged["extra"]["shards"] = nshards
    return merged


# -------------------------------------------------------------------------------------------------

_FUZZ_DICT = ['"\\""', '"\'"', '"\\\\"', '"?"', '"$"', '"#"', '"##"', '"###"', '"####"', '"%"', '"%%"', '"//"', '"/*"', '"*/"',
              '"\\x0a"', '"0x"', '"-"', '"inf"', '"nan"', '"1e"', '"\\\\n"', '"\\\\\\""', '"<"', '">"',
              # numeric-literal spellings
              '"+"', '"%+"', '"%%-"', '"#+"', '"e+"', '"E-"', '"p-"', '"P+"', '"0X"', '"%0x1.8p1"', '"%%0x1p-1074"', '"."', '".5"', '"5."',
              '"infinity"', '"INF"', '"NaN"', '"nan("', '")"', '"1e999"', '"1e-999"', '"1e39"', '"%1e+39 "', '"000"', '"%+1.5 "',
              '"99999999999999999999"', '"18446744073709551616"', '"3.4028235677973366e38"', '"4.9e-324"', '"1e-46"']


def _fuzz_task(a):
    import subprocess
    exe, k, seed, runs, workdir, env = a
    corpus = os.path.join(workdir, "fuzz-corpus-%d" % k)
    art = os.path.join(workdir, "fuzz-art-%d-" % k)
    os.makedirs(corpus, exist_ok=True)
    rng = random.Random("c09-fuzz-%d-%d" % (seed, k))
    spell = [observe_case(rng)[0] for _ in range(8)]
    for fam in SPELLING_FAMILIES:
        lit = spelling_literal(rng, rng.random() < 0.5, fam)[0]
        if len(lit) < 120:
            spell.append(b"%" + lit.encode() + b" 00 %%" + lit.encode())
    for i, t in enumerate(FIXED_TEXTS[:1] + FIXED_TEXTS[-7:] + spell + [bytes(gen_text(rng).text) for _ in range(12)]):
        with open(os.path.join(corpus, "seed%d" % i), "wb") as f:
            f.write(t)
    dict_path = os.path.join(workdir, "fuzz-%d.dict" % k)
    with open(dict_path, "w") as f:
        f.write("\n".join(_FUZZ_DICT) + "\n")
    cmd = [exe, "-runs=%d" % runs, "-seed=%d" % (seed * 1000 + k + 1), "-max_len=%d" % (96 if k % 2 else 400), "-timeout=25",
           "-rss_limit_mb=3000", "-artifact_prefix=" + art, "-dict=" + dict_path, "-print_final_stats=1", "-verbosity=1", corpus]
    try:
        p = subprocess.run(cmd, stdout=subprocess.PIPE, stderr=subprocess.STDOUT, env=env, cwd=workdir, timeout=9000,
                           start_new_session=True)
        rc, text = p.returncode, p.stdout.decode(errors="replace")
    except subprocess.TimeoutExpired as e:
        rc, text = -9, (e.stdout or b"").decode(errors="replace") + "\n[fuzz] wall-clock watchdog"
    arts = []
    for fn in sorted(os.listdir(workdir)):
        if fn.startswith("fuzz-art-%d-" % k):
            with open(os.path.join(workdir, fn), "rb") as f:
                arts.append((fn, f.read(4096)))
    return k, rc, text, arts


def stage_fuzz(ctx, st):
    from vf import build, driver
    exe = build.build_harness("c09_fuzz", "fuzz", extra_link=["-fsanitize=fuzzer"])
    tier, seed = ctx["tier"], ctx["seed"]
    nproc = 8 if tier == "quick" else 16
    runs = 250000 if tier == "quick" else 1500000
    env = dict(os.environ)
    env.update(driver.SAN_ENV)
    tasks = [(exe, k, seed, runs, ctx["workdir"], env) for k in range(nproc)]
    res = driver.empty_result()
    with ProcessPoolExecutor(max_workers=min(nproc, os.cpu_count() or 4), initializer=_new_session) as ex:
        outs = list(ex.map(_fuzz_task, tasks))
    total = 0
    for k, rc, text, arts in outs:
        m = re.search(r"stat::number_of_executed_units:\s*(\d+)", text)
        units = int(m.group(1)) if m else 0
        total += units
        covs = re.findall(r"cov: (\d+) ft: (\d+)", text)
        if covs:
            res["counters"]["fuzz_max_edges"] = max(res["counters"].get("fuzz_max_edges", 0), int(covs[-1][0]))
            res["counters"]["fuzz_max_features"] = max(res["counters"].get("fuzz_max_features", 0), int(covs[-1][1]))
        if rc == 0 and units > 0:
            res["classes"]["fuzz:process-completed-all-runs"] = res["classes"].get("fuzz:process-completed-all-runs", 0) + 1
            if re.search(r"\bNEW\b|\bREDUCE\b", text):
                res["classes"]["fuzz:new-coverage-found"] = res["classes"].get("fuzz:new-coverage-found", 0) + 1
            continue
        if rc == -9 and "watchdog" in text:
            raise driver.Inconclusive("c09-fuzz process %d exceeded its wall-clock watchdog" % k)
        fatal, ub = driver.parse_sanitizer_log(text)
        case = "; ".join("%s=%s" % (fn, b.hex()) for fn, b in arts) or "(no artifact)"
        keys = []
        if "C09-FUZZ-INVARIANT" in text:
            mm = re.search(r"C09-FUZZ-INVARIANT (\S+)", text)
            keys.append(("fuzz:invariant:" + mm.group(1), "fuzz target invariant failed"))
        elif "libFuzzer: timeout" in text:
            keys.append(("fuzz:timeout", "one input ran longer than 25 s"))
        elif "libFuzzer: out-of-memory" in text:
            keys.append(("fuzz:out-of-memory", "rss limit exceeded"))
        keys += [("fuzz:" + kk, w) for kk, w in fatal]
        if not keys:
            if "libFuzzer: deadly signal" in text:
                keys.append(("fuzz:deadly-signal", "process received a fatal signal"))
            else:
                raise driver.Inconclusive("c09-fuzz process %d ended rc=%s after %d of %d runs without a report:\n%s" % (
                    k, rc, units, runs, text[-2500:]))
        for key, what in keys:
            res["violation_counts"][key] = res["violation_counts"].get(key, 0) + 1
            res["violations"].append({"key": key, "what": what, "case": "libFuzzer input " + case,
                                      "stderr_tail": text[-3500:], "meta": {"stage": "c09-fuzz", "shard": None}})
    res["evaluations"] = total
    res["counters"]["fuzz_executed_units"] = total
    res["extra"]["fuzz_processes"] = nproc
    res["samples"].append("libFuzzer: %d processes x %d runs on parse_data_string (text and mask invariants, ASan+UBSan)" % (nproc, runs))
    return res


if __name__ == "__main__":
    # self-test of the oracle pieces:  python3 -m vf.oracles.c09
    assert f32_bits("-1.667") == 0xBFD56042 and f32_bits("1") == 0x3F800000 and f32_bits("1e-45") == 1
    assert f32_bits("1.00000005960464478") == 0x3F800001 and f32_bits("1.000000059604644775390625") == 0x3F800000
    assert f32_bits("16777217") == 0x4B800000 and f32_bits("3.5e38") == 0x7F800000 and f32_bits("-0.0") == 0x80000000
    d, m = ref_parse(FIXED_TEXTS[0])
    assert d.hex() == "0304001e7f006461726bffffffff63006f006c0064004260d5bfbc749318045605c0", d.hex()
    assert m.hex() == "ff00ffffffff00000000" + "ff" * 24
    rng = random.Random(5)
    for _ in range(20000):
        b = gen_text(rng)
        d, m = ref_parse(bytes(b.text))
        assert d == bytes(b.data) and m == bytes(b.mask), (bytes(b.text), d.hex(), bytes(b.data).hex())
    print("ok")
