"""C18 — independent Python oracle for format_time / format_duration / format_size texts.

The stage runs the C18 harness in dump mode (`--arg only=dump`): the real phosg functions are called
under ASan/UBSan and every (input, text) pair is written to `<out>.c18dump`.  This module then judges
each line with CPython only:

  T <t> <text> [pair:<family>]
                          (the optional 4th column marks a call made as part of a same-thread call pair f(a), f(a+d),
                          d of that delta family: judged exactly like every other line, reported as py:format_time:pair:<part>)
                          text must equal (datetime(1970,1,1) + timedelta(seconds=t // 10**6)) rendered as
                          %Y-%m-%d %H:%M:%S plus '.' and exactly t % 10**6 as six digits.  datetime's
                          proleptic-Gregorian ordinal arithmetic shares no code with gmtime_r/strftime.
  D <usecs> <p> <text>    [d:][hh:][mm:]ss[.f{p}] shape, inner fields two digits, and
                          |eval(text) - usecs| <= 0.5 * 10**(6-f) us with Python integers (inclusive).
  S <s> <incl> <text> <parse_size(text)>
                          own reading of the text vs parse_size's value vs s (same tolerance as the harness).

Stdlib only.
"""
import glob
import os
import re
from concurrent.futures import ProcessPoolExecutor
from datetime import datetime, timedelta

EPOCH = datetime(1970, 1, 1)
T_MAX = 253402300799 * 10**6 + 999999
DUR_RE = re.compile(r"^(\d+)(?::(\d+))?(?::(\d+))?(?::(\d+))?(?:\.(\d+))?$")
SIZE_UNIT_RE = re.compile(r"^(\d+)\.(\d\d) ([KMGTPE])B$")
SIZE_BYTES_RE = re.compile(r"^(\d+) bytes$")
SIZE_BOTH_RE = re.compile(r"^(\d+) bytes \((\d+)\.(\d\d) ([KMGTPE])B\)$")


def branch_of(us):
    return "lt1s" if us < 10**6 else "lt1m" if us < 60 * 10**6 else "lt1h" if us < 3600 * 10**6 else \
        "lt1d" if us < 86400 * 10**6 else "ge1d"


def expected_time(t):
    dt = EPOCH + timedelta(seconds=t // 10**6)
    return "%04d-%02d-%02d %02d:%02d:%02d.%06d" % (dt.year, dt.month, dt.day, dt.hour, dt.minute, dt.second,
                                                    t % 10**6)


def judge_duration(us, p, text):
    """Returns None or (key_suffix, what)."""
    br = branch_of(us)
    m = DUR_RE.match(text)
    if not m or not text.isascii():
        return ("format_duration:shape:" + br, "text is not [d:][hh:][mm:]ss[.f]")
    fields = [g for g in m.groups()[:4] if g is not None]
    frac = m.group(5)
    for k, f in enumerate(fields[1:]):
        if len(f) != 2:
            return ("format_duration:padding:" + br, "inner field %d has %d integer digits" % (k + 2, len(f)))
    fd = len(frac) if frac else 0
    if p >= 0 and fd != p:
        return ("format_duration:precision-digits:" + br, "%d fraction digits printed for precision %d" % (fd, p))
    secs = 0
    for mul, f in zip((1, 60, 3600, 86400), reversed(fields)):
        secs += mul * int(f)
    big = max(fd, 6)
    ev = secs * 10**big + (int(frac) if frac else 0) * 10**(big - fd)
    if 2 * abs(ev - us * 10**(big - 6)) > 10**(big - fd):
        return ("format_duration:value:" + br, "text evaluates to %s/10^%d s, input is %d us" % (ev, big, us))
    return None


def judge_size(s, incl, text, back):
    unit_idx = None
    printed_bytes = None
    m = SIZE_BYTES_RE.match(text)
    if m:
        printed_bytes = int(m.group(1))
    else:
        m = SIZE_UNIT_RE.match(text)
        if m:
            unit_idx = "KMGTPE".index(m.group(3))
            hundredths = int(m.group(1)) * 100 + int(m.group(2))
        else:
            m = SIZE_BOTH_RE.match(text)
            if not m:
                return ("size:shape", "unrecognised format_size text")
            printed_bytes = int(m.group(1))
            unit_idx = "KMGTPE".index(m.group(4))
            hundredths = int(m.group(2)) * 100 + int(m.group(3))
    if printed_bytes is not None:
        if back != s:
            which = "parse_size" if printed_bytes == s else "format_size"
            return ("size:%s:%s:%s" % (which, "bytes" if unit_idx is None else "KMGTPE"[unit_idx] + "B",
                                       "with-bytes" if incl else "unit-only"),
                    "text prints an exact byte count but parse_size(text) != s")
        return None
    unit = 1 << (10 * (unit_idx + 1))
    if unit_idx == 5 and hundredths >= 1600:
        return None  # 16.00 EB is not representable in size_t: not demanded
    if abs(back - s) * 10000 > unit * 51 + 20000:
        own = hundredths * unit // 100
        which = "parse_size" if abs(own - s) * 10000 <= unit * 51 + 20000 else "format_size"
        return ("size:%s:%sB:unit-only" % (which, "KMGTPE"[unit_idx]),
                "parse_size(format_size(s)) differs from s by more than 0.0051 unit + 2 bytes")
    return None


def judge_file(path):
    """Judges one dump file; returns a partial result dict (picklable)."""
    res = {"evaluations": 0, "classes": {}, "violations": [], "violation_counts": {}, "samples": [], "lines": 0}

    def viol(key, what, case):
        n = res["violation_counts"].get(key, 0) + 1
        res["violation_counts"][key] = n
        if n <= 3:
            res["violations"].append({"key": key, "what": what, "case": case})

    def cls(k):
        res["classes"][k] = res["classes"].get(k, 0) + 1

    with open(path, encoding="utf-8", errors="replace") as f:
        for line in f:
            line = line.rstrip("\n")
            if not line:
                continue
            res["lines"] += 1
            parts = line.split("\t")
            try:
                if parts[0] == "T":
                    t, text = int(parts[1]), parts[2]
                    tag = parts[3] if len(parts) > 3 else ""
                    if t > T_MAX:
                        continue
                    want = expected_time(t)
                    res["evaluations"] += 1
                    if text != want:
                        part = "shape" if len(text) != len(want) else "microseconds" if text[:19] == want[:19] else \
                            "time-of-day" if text[:10] == want[:10] else "date"
                        if tag:
                            viol("py:format_time:pair:" + part,
                                 "format_time differs from CPython datetime (UTC) in a same-thread call pair "
                                 "f(a), f(a + d)",
                                 "format_time(%d) = \"%s\" expected \"%s\"  {delta family of this call to the "
                                 "previous format_time call: %s}" % (t, text, want, tag[5:]))
                        else:
                            viol("py:format_time:" + part, "format_time differs from CPython datetime (UTC)",
                                 "format_time(%d) = \"%s\" expected \"%s\"" % (t, text, want))
                    if tag:
                        cls("py:time:" + tag)
                    y = int(want[:4])
                    leap = (y % 4 == 0 and y % 100 != 0) or y % 400 == 0
                    cls("py:time:%s:%s" % ("%dxxx" % (y // 1000), "feb29" if want[5:10] == "02-29" else
                                           "leap" if leap else "common"))
                    if len(res["samples"]) < 1:
                        res["samples"].append("py: format_time(%d) = \"%s\"" % (t, text))
                elif parts[0] == "D":
                    us, p, text = int(parts[1]), int(parts[2]), parts[3]
                    res["evaluations"] += 1
                    r = judge_duration(us, p, text)
                    if r:
                        viol("py:" + r[0], r[1], "format_duration(%d, %d) = \"%s\"" % (us, p, text))
                    cls("py:dur:%s:p%d" % (branch_of(us), p))
                elif parts[0] == "S":
                    s, incl, text, back = int(parts[1]), int(parts[2]), parts[3], int(parts[4])
                    res["evaluations"] += 1
                    r = judge_size(s, incl, text, back)
                    if r:
                        viol("py:" + r[0], r[1], "format_size(%d, %d) = \"%s\"; parse_size(that) = %d" % (s, incl, text, back))
                    cls("py:size:%d" % incl)
                else:
                    viol("py:dump:bad-line", "unrecognised dump line", line[:200])
            except (ValueError, IndexError) as ex:
                viol("py:dump:bad-line", "unparseable dump line (%s)" % ex, line[:200])
    return res


def stage(ctx, st):
    from vf import driver
    hst = {"name": "c18", "variant": "asan", "shards": st.get("shards", (8, 16)), "args": ["only=dump"],
           "tag": "c18-dump", "timeout": st.get("timeout", (600, 3600))}
    merged = driver.run_harness_stage(ctx, hst)
    # the harness-side counts of dump mode are bookkeeping only; this stage reports what Python judged
    harness_evals = merged["evaluations"]
    merged["evaluations"] = 0
    merged["classes"] = {}
    merged["samples"] = []
    files = sorted(glob.glob(os.path.join(ctx["workdir"], "c18-dump.*.json.c18dump")))
    if not files:
        raise driver.Inconclusive("C18 python oracle: the dump-mode harness wrote no dump files")
    with ProcessPoolExecutor(max_workers=min(len(files), os.cpu_count() or 4)) as ex:
        parts = list(ex.map(judge_file, files))
    lines = 0
    for p in parts:
        lines += p.pop("lines")
        driver.merge(merged, p)
    if merged["evaluations"] < 1000:
        raise driver.Inconclusive("C18 python oracle judged only %d lines" % merged["evaluations"])
    merged["extra"]["py_lines_judged"] = lines
    merged["extra"]["dump_harness_evaluations"] = harness_evals
    return merged
