"""C10 oracle: generates the hash workload and the *expected* results with independent
implementations (hashlib for MD5/SHA-1/SHA-256, zlib.crc32, a three-line FNV-1a recurrence).

make_cases(ctx) is the `args_fn` of the C10 harness stage: it writes one case file per shard into
the work directory and tells the harness where they are.  The harness (harness/c10.cc) runs the
real phosg code on every input and compares with the values stored here; it never computes an
expected value itself.

Case file (little endian):  "C10C" u32 ncases, then per case
  u32 case_id, u8 kind (0 exhaustive-length, 1 random-large, 2 extended-length), u8 fill, u8 allsplits, u8 nsplits,
  u32 len, data[len], md5[16], sha1[20], sha256[32], u32 crc32, u32 fnv1a32, u64 fnv1a64, u32 splits[nsplits]
"""
import hashlib
import os
import random
import struct
import zlib
from concurrent.futures import ProcessPoolExecutor

NSHARDS = 16
MIB = 1 << 20
FILLS = ["zero", "ff", "counter", "prng"]

FNV32_START, FNV32_PRIME = 0x811C9DC5, 0x01000193
FNV64_START, FNV64_PRIME = 0xCBF29CE484222325, 0x00000100000001B3


def fnv1a(data, h32=FNV32_START, h64=FNV64_START):
    """Published FNV-1a recurrence (Fowler/Noll/Vo): h = (h xor octet) * prime mod 2^width."""
    for b in data:
        h32 = ((h32 ^ b) * FNV32_PRIME) & 0xFFFFFFFF
        h64 = ((h64 ^ b) * FNV64_PRIME) & 0xFFFFFFFFFFFFFFFF
    return h32, h64


def self_test():
    """Published vectors (FNV reference test suite; RFC 1321/3174/6234 suites; CRC-32 check value)."""
    assert fnv1a(b"") == (0x811C9DC5, 0xCBF29CE484222325)
    assert fnv1a(b"a") == (0xE40C292C, 0xAF63DC4C8601EC8C)
    assert fnv1a(b"foobar") == (0xBF9CF968, 0x85944171F73967E8)
    assert zlib.crc32(b"123456789") == 0xCBF43926
    assert hashlib.md5(b"abc").hexdigest() == "900150983cd24fb0d6963f7d28e17f72"
    assert hashlib.sha1(b"abc").hexdigest() == "a9993e364706816aba3e25717850c26c9cd0d89d"
    assert hashlib.sha256(b"abc").hexdigest() == "ba7816bf8f01cfea414140de5dae2223b00361a396177a9cb410ff61f20015ad"


def fill_bytes(fill, n, seed):
    if fill == 0:
        return bytes(n)
    if fill == 1:
        return b"\xff" * n
    if fill == 2:
        return bytes(i & 0xFF for i in range(n))
    return random.Random("c10-fill-%d-%d" % (seed, n)).randbytes(n)


def plan(tier, seed):
    """Deterministic list of case descriptors (kind, fill, n, allsplits, rseed)."""
    cases = []
    for n in range(0, 301):
        for fill in range(4):
            cases.append((0, fill, n, 1, 0))
    if tier != "quick":
        for n in range(301, 1101):
            for fill in range(4):
                cases.append((2, fill, n, 0, 0))
    r = random.Random("c10-plan-%d" % seed)
    nrand = 200 if tier == "quick" else 5000
    forced = [(16384, 0), (16384, -9), (16383, 1), (1024, 1), (1024, -9), (1, -9), (1, 1), (2, 0)]
    for i in range(nrand):
        if i < len(forced):
            k, d = forced[i]
        else:
            u = r.random()
            if u < 0.70:
                k = r.randint(1, 64)
            elif u < 0.90:
                k = int(64 * 16 ** r.random())          # 64..1024 blocks, log-uniform
            else:
                k = int(1024 * 16 ** r.random())        # 1024..16384 blocks, log-uniform
            d = r.randint(-9, 1)
        n = min(64 * k + d, MIB)
        cases.append((1, 3, n, 0, r.getrandbits(64)))
    return cases


def _splits(r, n):
    s = {0, n}
    for _ in range(3):
        s.add(r.randint(0, n))
    if n >= 64:
        s.add(64 * r.randint(1, n // 64))
        s.add(n - 1)
    return sorted(s)[:8]


def _gen_shard(job):
    path, tier, seed, shard, nshards = job
    cases = plan(tier, seed)
    out = []
    count = 0
    nbytes = 0
    for cid, (kind, fill, n, allsplits, rseed) in enumerate(cases):
        if cid % nshards != shard:
            continue
        if kind == 1:
            rr = random.Random(rseed)
            data = rr.randbytes(n)
            splits = _splits(rr, n)
        else:
            data = fill_bytes(fill, n, seed)
            splits = [] if allsplits else _splits(random.Random(n * 4 + fill), n)
        h32, h64 = fnv1a(data)
        out.append(struct.pack("<IBBBBI", cid, kind, fill, allsplits, len(splits), n))
        out.append(data)
        out.append(hashlib.md5(data).digest())
        out.append(hashlib.sha1(data).digest())
        out.append(hashlib.sha256(data).digest())
        out.append(struct.pack("<IIQ", zlib.crc32(data) & 0xFFFFFFFF, h32, h64))
        out.append(struct.pack("<%dI" % len(splits), *splits))
        count += 1
        nbytes += n
    with open(path + ".tmp", "wb") as f:
        f.write(b"C10C" + struct.pack("<I", count))
        f.write(b"".join(out))
    os.replace(path + ".tmp", path)
    return count, nbytes


def make_cases(ctx):
    self_test()
    base = os.path.join(ctx["workdir"], "c10_cases")
    jobs = [("%s.%d.bin" % (base, s), ctx["tier"], int(ctx["seed"]), s, NSHARDS) for s in range(NSHARDS)]
    with ProcessPoolExecutor(max_workers=min(NSHARDS, os.cpu_count() or 4)) as ex:
        res = list(ex.map(_gen_shard, jobs))
    ctx["c10_generated"] = {"cases": sum(c for c, _ in res), "input_bytes": sum(b for _, b in res)}
    return ["cases=" + base]
