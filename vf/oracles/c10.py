"""C10 oracle: generates the hash workload and the *expected* results with independent
implementations (hashlib for MD5/SHA-1/SHA-256, zlib.crc32, a three-line FNV-1a recurrence).

make_cases(ctx) is the `args_fn` of the C10 harness stage: it writes one case file per shard into
the work directory and tells the harness where they are.  The harness (harness/c10.cc) runs the
real phosg code on every input and compares with the values stored here; it never computes an
expected value itself.

Case file (little endian):  "C10C" u32 ncases, then per case
  u32 case_id, u8 kind (0 exhaustive-length, 1 random-large, 2 extended-length, 3 concurrency set, 4 length ladder, 5 dense length sweep,\n  6 digest-shape-directed input, 7 prior-history pool), u8 fill, u8 allsplits, u8 nsplits,
  u32 len, data[len], md5[16], sha1[20], sha256[32], u32 crc32, u32 fnv1a32, u64 fnv1a64,
  u8 seeded_flags (bit0: crc, bit1: fnv), u32 seed32, u64 seed64, u32 crc32(data, seed32), u32 fnv1a32(data, seed32),
  u64 fnv1a64(data, seed64)    -- expected values for an arbitrary NON-default running value,
  u32 splits[nsplits]

make_cases also writes the prior-history pool (kind 7, one file for all shards, --arg prior_cases=<file>): a small fixed
set of inputs with all expected values; the harness runs them through every function on a fresh thread right after that
thread's unrelated earlier uses of phosg's shared helpers (harness/vf_history.hh).

make_cases_mt / make_cases_mt_tsan write the (smaller) input sets of the concurrency stages in the same format
(kind 3): the harness runs them from 8 threads at once and compares with these single-threaded expected values.
"""
import hashlib
import os
import random
import struct
import zlib
from concurrent.futures import ProcessPoolExecutor

NSHARDS = 16
MIB = 1 << 20
FILLS = ["zero", "ff", "counter", "prng"]

FNV32_START, FNV32_PRIME = 0x811C9DC5, 0x01000193
FNV64_START, FNV64_PRIME = 0xCBF29CE484222325, 0x00000100000001B3


def fnv1a(data, h32=FNV32_START, h64=FNV64_START):
    """Published FNV-1a recurrence (Fowler/Noll/Vo): h = (h xor octet) * prime mod 2^width."""
    for b in data:
        h32 = ((h32 ^ b) * FNV32_PRIME) & 0xFFFFFFFF
        h64 = ((h64 ^ b) * FNV64_PRIME) & 0xFFFFFFFFFFFFFFFF
    return h32, h64


def fnv1a_2(data, a32, a64, b32, b64):
    """Two runs of the recurrence (default start and a non-default start) in one pass over the data."""
    for b in data:
        a32 = ((a32 ^ b) * FNV32_PRIME) & 0xFFFFFFFF
        a64 = ((a64 ^ b) * FNV64_PRIME) & 0xFFFFFFFFFFFFFFFF
        b32 = ((b32 ^ b) * FNV32_PRIME) & 0xFFFFFFFF
        b64 = ((b64 ^ b) * FNV64_PRIME) & 0xFFFFFFFFFFFFFFFF
    return a32, a64, b32, b64


def pick_seeds(r):
    u = r.random()
    s32 = 0 if u < 0.1 else 0xFFFFFFFF if u < 0.2 else 1 if u < 0.25 else r.getrandbits(32)
    u = r.random()
    s64 = 0 if u < 0.1 else 0xFFFFFFFFFFFFFFFF if u < 0.2 else 1 if u < 0.25 else r.getrandbits(64)
    return s32, s64


def pack_case(cid, kind, fill, allsplits, data, splits, r):
    n = len(data)
    s32, s64 = pick_seeds(r)
    if n <= 65536:
        h32, h64, g32, g64 = fnv1a_2(data, FNV32_START, FNV64_START, s32, s64)
        flags = 3
    else:
        h32, h64 = fnv1a(data)
        g32 = g64 = 0
        flags = 1
    return b"".join((
        struct.pack("<IBBBBI", cid, kind, fill, allsplits, len(splits), n), data,
        hashlib.md5(data).digest(), hashlib.sha1(data).digest(), hashlib.sha256(data).digest(),
        struct.pack("<IIQ", zlib.crc32(data) & 0xFFFFFFFF, h32, h64),
        struct.pack("<BIQIIQ", flags, s32, s64, zlib.crc32(data, s32) & 0xFFFFFFFF, g32, g64),
        struct.pack("<%dI" % len(splits), *splits)))


def self_test():
    """Published vectors (FNV reference test suite; RFC 1321/3174/6234 suites; CRC-32 check value)."""
    assert fnv1a(b"") == (0x811C9DC5, 0xCBF29CE484222325)
    assert fnv1a(b"a") == (0xE40C292C, 0xAF63DC4C8601EC8C)
    assert fnv1a(b"foobar") == (0xBF9CF968, 0x85944171F73967E8)
    # seeded forms of the oracles compose (so the stored "non-default running value" expectations are right)
    assert fnv1a(b"bar", *fnv1a(b"foo")) == fnv1a(b"foobar") and fnv1a_2(b"bar", *fnv1a(b"foo"), 5, 7)[:2] == fnv1a(b"foobar")
    assert fnv1a_2(b"xyz", 1, 2, 5, 7)[2:] == fnv1a(b"xyz", 5, 7)
    assert zlib.crc32(b"6789", zlib.crc32(b"12345")) == 0xCBF43926 and zlib.crc32(b"", 0x1234) == 0x1234
    assert zlib.crc32(b"123456789") == 0xCBF43926
    assert hashlib.md5(b"abc").hexdigest() == "900150983cd24fb0d6963f7d28e17f72"
    assert hashlib.sha1(b"abc").hexdigest() == "a9993e364706816aba3e25717850c26c9cd0d89d"
    assert not hashlib.md5(FIXED_SHAPE_VECTORS[0]).digest().translate(None, _TEXT)
    assert not hashlib.sha1(FIXED_SHAPE_VECTORS[1]).digest().translate(None, _TEXT)
    assert hashlib.sha256(b"abc").hexdigest() == "ba7816bf8f01cfea414140de5dae2223b00361a396177a9cb410ff61f20015ad"


def fill_bytes(fill, n, seed):
    if fill == 0:
        return bytes(n)
    if fill == 1:
        return b"\xff" * n
    if fill == 2:
        return bytes(i & 0xFF for i in range(n))
    return random.Random("c10-fill-%d-%d" % (seed, n)).randbytes(n)


def plan(tier, seed):
    """Deterministic list of case descriptors (kind, fill, n, allsplits, rseed)."""
    cases = []
    for n in range(0, 301):
        for fill in range(4):
            cases.append((0, fill, n, 1, 0))
    if tier != "quick":
        for n in range(301, 1101):
            for fill in range(4):
                cases.append((2, fill, n, 0, 0))
    r = random.Random("c10-plan-%d" % seed)
    nrand = 200 if tier == "quick" else 5000
    forced = [(16384, 0), (16384, -9), (16383, 1), (1024, 1), (1024, -9), (1, -9), (1, 1), (2, 0)]
    for i in range(nrand):
        if i < len(forced):
            k, d = forced[i]
        else:
            u = r.random()
            if u < 0.70:
                k = r.randint(1, 64)
            elif u < 0.90:
                k = int(64 * 16 ** r.random())          # 64..1024 blocks, log-uniform
            else:
                k = int(1024 * 16 ** r.random())        # 1024..16384 blocks, log-uniform
            d = r.randint(-9, 1)
        n = min(64 * k + d, MIB)
        cases.append((1, 3, n, 0, r.getrandbits(64)))
    # dense length sweep 301..5000, stride 1 (0..300 are enumerated above with four fills)
    for n in range(301, 5001):
        cases.append((5, 3, n, 0, r.getrandbits(64)))
    # length ladder: sizes next to every power of two and every 3*2^k up to (and just beyond) 1 MiB
    for n in ladder_sizes(tier):
        cases.append((4, 3, n, 0, r.getrandbits(64)))
    return cases


def ladder_sizes(tier):
    quick = tier == "quick"
    sizes = set()
    for k in range(9, 21):
        w = 1 if (quick and k > 16) else 2
        sizes.update(2 ** k + d for d in range(-w, w + 1))
    for k in range(8, 19):
        w = 1 if (quick and 3 * 2 ** k > 65536) else 2
        sizes.update(3 * 2 ** k + d for d in range(-w, w + 1))
    sizes.update((MIB + 1, MIB + 2))
    return sorted(sizes)


# ------------------------------------------------------------------------------------------------
# digest-shape-directed inputs: a hex()/bin() rendering may depend on what the digest bytes look like (all printable, all
# letters, quotes/backslashes inside).  Bounded search over "phosg-<i>" candidates with MD5, nothing cached between runs.

_TEXT = bytes(range(0x20, 0x7F)) + b"\t\r\n"
_LETTERS = b"ABCDEFGHIJKLMNOPQRSTUVWXYZabcdefghijklmnopqrstuvwxyz"
FIXED_SHAPE_VECTORS = [b"phosg-7095342", b"phosg-720317140"]      # MD5 / SHA-1 digest entirely text bytes
SHAPE_BUDGET = {"quick": 8_000_000, "thorough": 40_000_000}


def shape_search(tier, seed, shard, nshards):
    found = []
    quoteish = 0
    start = (seed % 100) * 4_000_000
    md5 = hashlib.md5
    for i in range(start + shard, start + SHAPE_BUDGET[tier], nshards):
        c = b"phosg-%d" % i
        d = md5(c).digest()
        if not d.translate(None, _TEXT):
            found.append(c)                                   # whole digest is text (0x20..0x7E, \t \r \n)
        elif quoteish < 3 and (d[0] in b"\"'\\" or d[15] in b"\"'\\") and len(d.translate(None, _TEXT)) <= 6:
            found.append(c)                                   # mostly text with a quote / backslash at an end
            quoteish += 1
    return found


# ------------------------------------------------------------------------------------------------
# early-call probe: the harness hashes this input from a static initializer (before main, before libphosg's own
# initializers) and main() compares with these values.

EARLY_INPUT = b"early call probe: The quick brown fox jumps over the lazy dog 0123456789 \x00\xff\x80 phosg"
EARLY_CUT = 17


def early_args():
    x = EARLY_INPUT
    h32, h64 = fnv1a(x)
    blob = hashlib.md5(x).digest() + hashlib.sha1(x).digest() + hashlib.sha256(x).digest() + \
        struct.pack("<IIQI", zlib.crc32(x) & 0xFFFFFFFF, h32, h64, zlib.crc32(x[:EARLY_CUT]) & 0xFFFFFFFF)
    return ["early_input=" + x.hex(), "early_cut=%d" % EARLY_CUT, "early_expect=" + blob.hex()]


def _splits(r, n):
    s = {0, n}
    for _ in range(3):
        s.add(r.randint(0, n))
    if n >= 64:
        s.add(64 * r.randint(1, n // 64))
        s.add(n - 1)
    return sorted(s)[:8]


def _gen_shard(job):
    path, tier, seed, shard, nshards = job
    cases = plan(tier, seed)
    out = []
    count = 0
    nbytes = 0
    for cid, (kind, fill, n, allsplits, rseed) in enumerate(cases):
        if cid % nshards != shard:
            continue
        if kind in (1, 4, 5):
            rr = random.Random(rseed)
            data = rr.randbytes(n)
            splits = _splits(rr, n)
        else:
            data = fill_bytes(fill, n, seed)
            splits = [] if allsplits else _splits(random.Random(n * 4 + fill), n)
        out.append(pack_case(cid, kind, fill, allsplits, data, splits, random.Random("c10-seeds-%d-%d" % (seed, cid))))
        count += 1
        nbytes += n
    shaped = shape_search(tier, seed, shard, nshards) + (FIXED_SHAPE_VECTORS if shard == 0 else [])
    for j, data in enumerate(shaped):
        out.append(pack_case(10_000_000 + shard * 10_000 + j, 6, 3, 0, data, [], random.Random("c10-shape-%d" % j)))
        count += 1
    with open(path + ".tmp", "wb") as f:
        f.write(b"C10C" + struct.pack("<I", count))
        f.write(b"".join(out))
    os.replace(path + ".tmp", path)
    return count, nbytes


# ------------------------------------------------------------------------------------------------
# prior-history pool: lengths at the padding / block boundaries, a few larger ones; "abc" fixed, the rest seeded.

PRIOR_POOL_LENGTHS = [0, 1, 3, 31, 32, 55, 56, 63, 64, 65, 119, 120, 128, 200, 300, 1000, 4099, 20000]


def write_prior_pool(path, seed):
    r = random.Random("c10-prior-pool-%d" % seed)
    out = []
    for j, n in enumerate(PRIOR_POOL_LENGTHS):
        data = b"abc" if n == 3 else r.randbytes(n)
        cuts = sorted({n // 2, r.randint(0, n)})
        out.append(pack_case(20_000_000 + j, 7, 3, 0, data, cuts, r))
    with open(path + ".tmp", "wb") as f:
        f.write(b"C10C" + struct.pack("<I", len(out)))
        f.write(b"".join(out))
    os.replace(path + ".tmp", path)
    return len(out)


def make_cases(ctx):
    self_test()
    base = os.path.join(ctx["workdir"], "c10_cases")
    pool = os.path.join(ctx["workdir"], "c10_prior_pool.bin")
    write_prior_pool(pool, int(ctx["seed"]))
    jobs = [("%s.%d.bin" % (base, s), ctx["tier"], int(ctx["seed"]), s, NSHARDS) for s in range(NSHARDS)]
    with ProcessPoolExecutor(max_workers=min(NSHARDS, os.cpu_count() or 4)) as ex:
        res = list(ex.map(_gen_shard, jobs))
    ctx["c10_generated"] = {"cases": sum(c for c, _ in res), "input_bytes": sum(b for _, b in res)}
    return ["cases=" + base, "prior_cases=" + pool] + early_args()


# ------------------------------------------------------------------------------------------------
# concurrency stages: small per-shard input sets, lengths around every block / padding boundary

MT_SHARDS = 4
MT_TSAN_SHARDS = 2


def _gen_mt_shard(job):
    path, tier, seed, shard, tag = job
    r = random.Random("c10-mt-%s-%s-%d-%d" % (tag, tier, seed, shard))
    lengths = list(range(0, 131)) + list(range(183, 194)) + list(range(247, 258)) + list(range(311, 322))
    lengths += [r.randint(322, 4096) for _ in range(24)] + [64 * r.randint(100, 1024) + r.randint(-9, 1) for _ in range(4)]
    if tag == "tsan":
        lengths = [n for n in lengths if n <= 4096]
    r.shuffle(lengths)            # thread t takes records t, t+8, ...: every thread gets a mix of lengths
    out = [pack_case(i, 3, 3, 0, r.randbytes(n), [], r) for i, n in enumerate(lengths)]
    with open(path + ".tmp", "wb") as f:
        f.write(b"C10C" + struct.pack("<I", len(out)))
        f.write(b"".join(out))
    os.replace(path + ".tmp", path)
    return len(out)


def _make_mt(ctx, tag, nshards):
    self_test()
    base = os.path.join(ctx["workdir"], "c10_mtcases_" + tag)
    jobs = [("%s.%d.bin" % (base, s), ctx["tier"], int(ctx["seed"]), s, tag) for s in range(nshards)]
    with ProcessPoolExecutor(max_workers=nshards) as ex:
        list(ex.map(_gen_mt_shard, jobs))
    return ["cases=" + base] + early_args()


def make_cases_mt(ctx):
    return _make_mt(ctx, "asan", MT_SHARDS)


def make_cases_mt_tsan(ctx):
    return _make_mt(ctx, "tsan", MT_TSAN_SHARDS)
