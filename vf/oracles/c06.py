"""C06 — image codecs.  Independent side of the check (stdlib only).

This module
  * owns the pixel arrays (seeded generator) and writes every *input* container variant itself:
    P6, P5, P7 (RGB, RGB_ALPHA, GRAYSCALE, GRAYSCALE_ALPHA), BMP 24-bit BI_RGB, 32-bit BI_RGB,
    32-bit BI_BITFIELDS with all 24 byte-mask permutations, header sizes 40/52/56/108/124,
    bottom-up / top-down, optional gap before the pixel data;
  * independently decodes what phosg saves (own PNG decoder: signature, chunk layout, CRC-32 of
    every chunk via zlib.crc32, IHDR fields, zlib stream, unfilter; own BMP and PPM decoders);
  * runs the C++ executor (harness/c06.cc) once per (family, shard) so that a sanitizer abort in
    one family (e.g. the P5 heap overflow) cannot hide the other families, restarts a family
    after the crashed case, and judges the observation files.

Exchange format (all little-endian, files live in the driver's workdir):
  cases:  "C06CASE1" u32 ncases, then per case: u32 reclen, u32 id, u8 kind(0 load,1 save), u8 flags,
          u16+family, u16+name, u32 w, u32 h, u8 alpha, u8 cw, u32+pixels [, u32+file bytes]
          kind 2 (encoded-size ladder, PNG): pixels = random base raster, then u8 mode, u8 fill, u16 window,
          u32 ntargets, u32 targets[]  (see run_ladder_case in harness/c06.cc and ladder_pixels below)
  obs:    sequence of u32 reclen + (u8 type, u32 case id, ...) — see R_* in harness/c06.cc
"""
import itertools
import os
import random
import resource
import struct
import time
import zlib
from concurrent.futures import ThreadPoolExecutor

from .. import build, driver

F_PREFIX, F_MEM, F_FILE, F_PIPE, F_PIPEPRE, F_HISTORY = 1, 2, 4, 8, 16, 32
KINDS = ("mem", "file", "pipe", "fopen", "path", "pathstr")  # delivery channels, see StreamKind in harness/c06.cc
SLOT_NAMES = {0: "input", 1: "ppm", 2: "bmp", 3: "png"}
R_BEGIN, R_LOAD, R_PSUM, R_PDIFF, R_SAVE, R_RT, R_END, R_DONE, R_LEAK, R_ROUTE, R_RSAVE, R_RLOAD, R_LADDER = range(13)
MAXPREFIX = 4096 + 128  # every file up to 4 KiB, and the size-ladder files just above the 4096 boundary
TIMEOUT = {"quick": 1500, "thorough": 6 * 3600}  # watchdog per executor process (hang detector, not a budget)


class DecodeError(Exception):
    def __init__(self, cls, msg):
        Exception.__init__(self, msg)
        self.cls = cls


# --------------------------------------------------------------------------------------------------
# pixel arrays.  An image is (w, h, alpha, cw, data) where data is phosg's in-memory layout:
# rows top to bottom, pixels left to right, channels R,G,B[,A], each sample cw/8 bytes little-endian.

class Im:
    __slots__ = ("w", "h", "alpha", "cw", "data")

    def __init__(self, w, h, alpha, cw, data):
        self.w, self.h, self.alpha, self.cw, self.data = w, h, bool(alpha), cw, bytes(data)

    def key(self):
        return (self.w, self.h, self.alpha, self.cw, self.data)

    def desc(self):
        return "%dx%d alpha=%d cw=%d" % (self.w, self.h, self.alpha, self.cw)


_CYCLE = bytes(range(256)) * 2


def gen_samples(rng, content, nsamples, cw, maxval, w, nch):
    """nsamples samples of cw bits, returned as little-endian bytes; every sample <= maxval."""
    b = cw // 8
    full = maxval == (1 << cw) - 1
    if content == "zero":
        return bytes(nsamples * b)
    if content == "max":
        return maxval.to_bytes(b, "little") * nsamples
    if content == "random" and full:
        return rng.randbytes(nsamples * b)
    if content == "everybyte" and full:
        n = nsamples * b
        off = rng.randrange(256)
        reps = (n + off) // 256 + 2
        return (bytes(range(256)) * reps)[off:off + n]
    vals = []
    if content == "gradient":
        # value depends on x, y and channel so that any transposition / channel swap shows
        for i in range(nsamples):
            px, ch = divmod(i, nch)
            y, x = divmod(px, w)
            v = (x * 0x0123456789ABCDEF + y * 0x1F3D5B79A7C5E301 + (ch + 1) * 0x5555555555555555) & ((1 << cw) - 1)
            if cw == 8:
                v = (x * 37 + y * 101 + ch * 59 + 1) & 0xFF
            vals.append(v % (maxval + 1))
    elif content == "everybyte":
        off = rng.randrange(256)
        vals = [((off + i) * 0x0101010101010101 & ((1 << cw) - 1)) % (maxval + 1) for i in range(nsamples)]
    else:  # random within a reduced maxval
        vals = [rng.randrange(maxval + 1) for _ in range(nsamples)]
    return b"".join(v.to_bytes(b, "little") for v in vals)


def expand_gray(samples, w, h, alpha, cw):
    """gray[/alpha] samples -> R,G,B[,A] layout"""
    b = cw // 8
    out = bytearray()
    if alpha:
        for i in range(0, len(samples), 2 * b):
            g = samples[i:i + b]
            out += g + g + g + samples[i + b:i + 2 * b]
    else:
        for i in range(0, len(samples), b):
            g = samples[i:i + b]
            out += g + g + g
    return bytes(out)


# --------------------------------------------------------------------------------------------------
# writers (inputs for phosg's loader)

def write_pnm(magic, w, h, maxval, raster, style):
    """P5/P6 header.  style picks the (format-legal) whitespace between tokens."""
    if style == 0:
        hdr = "%s\n%d %d\n%d\n" % (magic, w, h, maxval)
    elif style == 1:
        hdr = "%s %d %d %d\n" % (magic, w, h, maxval)
    elif style == 2:
        hdr = "%s\n%d\n%d\n%d " % (magic, w, h, maxval)
    elif style == 3:
        hdr = "%s\t%d\t%d\t%d\t" % (magic, w, h, maxval)
    else:
        hdr = "%s \n %d \t\n%d\n\n%d\n" % (magic, w, h, maxval)
    return hdr.encode() + raster


PNM_STYLES = 5

_P7_ORDERS = [
    ("WIDTH", "HEIGHT", "DEPTH", "MAXVAL", "TUPLTYPE"),
    ("TUPLTYPE", "MAXVAL", "DEPTH", "HEIGHT", "WIDTH"),
    ("HEIGHT", "WIDTH", "MAXVAL", "TUPLTYPE", "DEPTH"),
    ("DEPTH", "TUPLTYPE", "WIDTH", "MAXVAL", "HEIGHT"),
]


def write_p7(w, h, depth, maxval, tupltype, raster, style):
    vals = {"WIDTH": w, "HEIGHT": h, "DEPTH": depth, "MAXVAL": maxval, "TUPLTYPE": tupltype}
    order = _P7_ORDERS[style % len(_P7_ORDERS)]
    trail = " " if style >= len(_P7_ORDERS) else ""  # trailing blank on every header line
    hdr = "P7\n" + "".join("%s %s%s\n" % (k, vals[k], trail) for k in order) + "ENDHDR\n"
    return hdr.encode() + raster


P7_STYLES = 2 * len(_P7_ORDERS)

BMP_HEADER_SIZES = (40, 52, 56, 108, 124)
PERMS = list(itertools.permutations(range(4)))  # byte positions of (r, g, b, a) inside the 32-bit pixel


# --------------------------------------------------------------------------------------------------
# encoded-size ladder.  Sizes that only emerge after encoding (deflated size of a PNG's IDAT payload, total
# length of a PPM/BMP file = header text + raster + padding) are steered onto every power of two and 3*2^k
# (and the multiples of 1 KiB for the PNG payload), hit exactly and one byte to either side where reachable:
# internal block / chunk / stdio buffer sizes of a writer or loader are of that form.

def size_boundaries(lo, hi):
    """2^k and 3*2^k within [lo, hi]"""
    out = set()
    k = 1
    while k <= hi:
        out.update(v for v in (k, 3 * k) if lo <= v <= hi)
        k *= 2
    return sorted(out)


PNG_IDAT_MAX = 64 * (1 + 64 * 4) + 16  # 64x64 RGBA, incompressible: stored blocks + zlib wrapper
PNG_LADDER_POW = size_boundaries(256, PNG_IDAT_MAX)        # required: hit exactly
PNG_LADDER_KIB = [1024 * k for k in range(1, 17)]
PNG_LADDER_TARGETS = sorted(set(PNG_LADDER_POW) | set(PNG_LADDER_KIB))
FILE_BOUNDARIES = size_boundaries(256, 1 << 18)


def near_boundary(n, boundaries):
    """-> (B, '-1' | '=' | '+1') if n is within one byte of a boundary, else None"""
    for d, rel in ((0, "="), (1, "-1"), (-1, "+1")):
        if n + d in boundaries:
            return n + d, rel
    return None


def ladder_pixels(base, mode, fill, L):
    """raster of a ladder probe - mirrors ladder_pixels() in harness/c06.cc"""
    n = len(base)
    out = bytearray([fill]) * n
    if mode == 0:
        out[:L] = base[:L]
    elif mode == 1:
        out[n - L:] = base[n - L:]
    else:
        m = min(n, 2 * L)
        out[0:m:2] = base[0:m:2]
    return bytes(out)


def png_idat_chunks(b):
    """lengths of the IDAT chunks of a PNG file (tolerant walk, coverage only); None if the framing is broken"""
    pos, out = 8, []
    while pos + 12 <= len(b):
        (n,) = struct.unpack(">I", b[pos:pos + 4])
        if pos + 12 + n > len(b):
            return None
        if b[pos + 4:pos + 8] == b"IDAT":
            out.append(n)
        if b[pos + 4:pos + 8] == b"IEND":
            return out
        pos += 12 + n
    return None


def pick_by_size(index, sizes_sorted, B, rels, rng):
    """index: encoded size -> list of parameter tuples.  Returns [(rel, size, params)] for the wanted relations to the
    boundary B ('=', '-1', '+1'); where none of the three sizes is reachable, the nearest size below and above."""
    import bisect
    out = []
    for rel in rels:
        sz = B + {"=": 0, "-1": -1, "+1": 1}[rel]
        if sz in index:
            out.append((rel, sz, rng.choice(index[sz])))
    if not out and not any(B + d in index for d in (-1, 0, 1)):
        i = bisect.bisect_left(sizes_sorted, B)
        if i > 0:
            out.append(("<", sizes_sorted[i - 1], rng.choice(index[sizes_sorted[i - 1]])))
        if i < len(sizes_sorted):
            out.append((">", sizes_sorted[i], rng.choice(index[sizes_sorted[i]])))
    return out


def rels_for(quick, rot):
    """quick: one relation per boundary, rotating (falls back to the others if that size is unreachable)"""
    order = ("=", "-1", "+1")
    if not quick:
        return [order]
    k = next(rot) % 3
    return [(order[k],), (order[(k + 1) % 3],), (order[(k + 2) % 3],)]


def pick_rotating(index, sizes_sorted, B, quick, rot, rng):
    for rels in rels_for(quick, rot):
        got = pick_by_size(index, sizes_sorted, B, rels, rng)
        if got and got[0][0] in ("=", "-1", "+1"):
            return got
    near = pick_by_size(index, sizes_sorted, B, (), rng)  # no size within one byte is reachable: nearest below and above
    return near[next(rot) % len(near):][:1] if quick and near else near


def bmp_stride(w, bpp):
    return ((w * bpp + 31) // 32) * 4


def predicted_saved_len(fmtn, w, h, alpha, cw):
    """length of the file phosg is expected to write (steering only: the judge notes the sizes really seen)"""
    nch = 4 if alpha else 3
    if fmtn == "png-raster":  # what the PNG writer hands to deflate: filter byte + row, h times
        return h * (1 + w * nch)
    if fmtn == "bmp":
        return (138 + 4 * w * h) if alpha else (54 + bmp_stride(w, 24) * h)
    if alpha:
        hdr = "P7\nWIDTH %d\nHEIGHT %d\nDEPTH 4\nMAXVAL %d\nTUPLTYPE RGB_ALPHA\nENDHDR\n" % (w, h, CW_MAX[cw])
    else:
        hdr = "P6 %d %d %d\n" % (w, h, CW_MAX[cw])
    return len(hdr) + w * h * nch * (cw // 8)


def write_bmp(rng, im, bpp, bitfields, header_size, topdown, gap, perm=(2, 1, 0, 3)):
    """im: 8-bit Im (RGB for BI_RGB, RGBA for BI_BITFIELDS).  Returns file bytes."""
    w, h = im.w, im.h
    nch = 4 if im.alpha else 3
    rows = [im.data[y * w * nch:(y + 1) * w * nch] for y in range(h)]
    out_rows = []
    for row in rows:
        if bitfields:
            o = bytearray(4 * w)
            for ch in range(4):
                o[perm[ch]::4] = row[ch::4]
        elif bpp == 24:
            o = bytearray(3 * w)
            o[0::3] = row[2::3]
            o[1::3] = row[1::3]
            o[2::3] = row[0::3]
            o += rng.randbytes((-3 * w) % 4)  # row padding: content is irrelevant by definition
        else:  # 32-bit BI_RGB: B,G,R,unused
            o = bytearray(4 * w)
            o[0::4] = row[2::3]
            o[1::4] = row[1::3]
            o[2::4] = row[0::3]
            o[3::4] = rng.randbytes(w)
        out_rows.append(bytes(o))
    if not topdown:
        out_rows.reverse()
    pix = b"".join(out_rows)
    info = bytearray(header_size)
    struct.pack_into("<IiiHHIIiiII", info, 0, header_size, w, -h if topdown else h, 1, bpp, 3 if bitfields else 0,
                     0 if (not bitfields and header_size in (52, 124)) else len(pix), 2835, 2835, 0, 0)
    if header_size >= 56 and bitfields:
        struct.pack_into("<IIII", info, 40, *[0xFF << (8 * perm[ch]) for ch in range(4)])
    if header_size >= 108:
        struct.pack_into("<I", info, 56, 0x73524742)  # 'sRGB'
    if header_size >= 124:
        struct.pack_into("<I", info, 108, 4)  # LCS_GM_IMAGES
    off = 14 + header_size + gap
    fh = struct.pack("<2sIHHI", b"BM", off + len(pix), 0, 0, off)
    return fh + bytes(info) + rng.randbytes(gap) + pix


# --------------------------------------------------------------------------------------------------
# decoders (for what phosg saves)

def decode_png(b):
    if b[:8] != b"\x89PNG\r\n\x1a\n":
        raise DecodeError("signature", "bad PNG signature %r" % b[:8])
    pos = 8
    chunks = []
    while True:
        if pos == len(b):
            raise DecodeError("chunk-layout", "file ends without IEND")
        if pos + 12 > len(b):
            raise DecodeError("chunk-layout", "truncated chunk header at %d" % pos)
        (n,) = struct.unpack(">I", b[pos:pos + 4])
        typ = b[pos + 4:pos + 8]
        if n > 0x7FFFFFFF or pos + 12 + n > len(b):
            raise DecodeError("chunk-layout", "chunk %r length %d overruns file" % (typ, n))
        data = b[pos + 8:pos + 8 + n]
        (crc,) = struct.unpack(">I", b[pos + 8 + n:pos + 12 + n])
        if crc != zlib.crc32(typ + data) & 0xFFFFFFFF:
            raise DecodeError("crc", "chunk %r CRC %08x, computed %08x" % (typ, crc, zlib.crc32(typ + data) & 0xFFFFFFFF))
        if not all(65 <= c <= 90 or 97 <= c <= 122 for c in typ):
            raise DecodeError("chunk-layout", "bad chunk type %r" % typ)
        chunks.append((typ, data))
        pos += 12 + n
        if typ == b"IEND":
            break
    if pos != len(b):
        raise DecodeError("chunk-layout", "%d bytes after IEND" % (len(b) - pos))
    if chunks[0][0] != b"IHDR" or len(chunks[0][1]) != 13:
        raise DecodeError("ihdr", "first chunk is %r (%d bytes)" % (chunks[0][0], len(chunks[0][1])))
    if sum(1 for t, _ in chunks if t == b"IHDR") != 1:
        raise DecodeError("chunk-layout", "more than one IHDR")
    if chunks[-1][1]:
        raise DecodeError("chunk-layout", "IEND carries data")
    w, h, depth, ctype, comp, filt, inter = struct.unpack(">IIBBBBB", chunks[0][1])
    if w == 0 or h == 0 or w > 0x7FFFFFFF or h > 0x7FFFFFFF:
        raise DecodeError("ihdr", "bad dimensions %dx%d" % (w, h))
    if (depth, comp, filt, inter) != (8, 0, 0, 0) or ctype not in (2, 6):
        raise DecodeError("ihdr", "unsupported IHDR depth=%d ctype=%d comp=%d filter=%d interlace=%d"
                          % (depth, ctype, comp, filt, inter))
    idat_idx = [i for i, (t, _) in enumerate(chunks) if t == b"IDAT"]
    if not idat_idx:
        raise DecodeError("chunk-layout", "no IDAT")
    if idat_idx != list(range(idat_idx[0], idat_idx[0] + len(idat_idx))):
        raise DecodeError("chunk-layout", "IDAT chunks not consecutive")
    for i, (t, d) in enumerate(chunks):
        if t in (b"IHDR", b"IDAT", b"IEND"):
            continue
        if t == b"gAMA":
            if len(d) != 4 or i > idat_idx[0]:
                raise DecodeError("chunk-layout", "gAMA malformed or after IDAT")
            continue
        if not (t[0] & 0x20):
            raise DecodeError("chunk-layout", "unknown critical chunk %r" % t)
    z = zlib.decompressobj()
    try:
        raw = z.decompress(b"".join(d for t, d in chunks if t == b"IDAT"))
        raw += z.flush()
    except zlib.error as ex:
        raise DecodeError("zlib", "zlib stream: %s" % ex)
    if not z.eof:
        raise DecodeError("zlib", "zlib stream incomplete")
    if z.unused_data:
        raise DecodeError("zlib", "%d bytes after the zlib stream" % len(z.unused_data))
    bpp = 4 if ctype == 6 else 3
    stride = w * bpp
    if len(raw) != h * (1 + stride):
        raise DecodeError("raster-length", "inflated %d bytes, expected h*(1+w*bpp)=%d" % (len(raw), h * (1 + stride)))
    out = bytearray()
    prev = bytearray(stride)
    for y in range(h):
        ft = raw[y * (1 + stride)]
        line = bytearray(raw[y * (1 + stride) + 1:(y + 1) * (1 + stride)])
        if ft == 0:
            pass
        elif ft == 1:
            for i in range(bpp, stride):
                line[i] = (line[i] + line[i - bpp]) & 0xFF
        elif ft == 2:
            for i in range(stride):
                line[i] = (line[i] + prev[i]) & 0xFF
        elif ft == 3:
            for i in range(stride):
                a = line[i - bpp] if i >= bpp else 0
                line[i] = (line[i] + ((a + prev[i]) >> 1)) & 0xFF
        elif ft == 4:
            for i in range(stride):
                a = line[i - bpp] if i >= bpp else 0
                c = prev[i - bpp] if i >= bpp else 0
                bb = prev[i]
                p = a + bb - c
                pa, pb, pc = abs(p - a), abs(p - bb), abs(p - c)
                pr = a if (pa <= pb and pa <= pc) else (bb if pb <= pc else c)
                line[i] = (line[i] + pr) & 0xFF
        else:
            raise DecodeError("filter", "row %d has filter type %d" % (y, ft))
        out += line
        prev = line
    return Im(w, h, ctype == 6, 8, bytes(out))


def _png_chunk(typ, data):
    return struct.pack(">I", len(data)) + typ + data + struct.pack(">I", zlib.crc32(typ + data) & 0xFFFFFFFF)


def selftest_png_decoder(seed):
    """The PNG oracle must accept every standard-conformant chunking of the same stream (several consecutive IDAT
    chunks of any length including zero, ancillary chunks) and must judge CRCs, chunk order and the total inflated
    length.  Files are built here, independently of phosg.  Returns the number of checks; raises AssertionError."""
    rng = random.Random(seed * 31 + 3)
    n = 0
    for (w, h, alpha) in ((5, 4, True), (7, 3, False), (64, 64, True)):
        bpp = 4 if alpha else 3
        px = rng.randbytes(w * h * bpp)
        raw = b"".join(b"\0" + px[y * w * bpp:(y + 1) * w * bpp] for y in range(h))
        z = zlib.compress(raw, 9)
        ihdr = _png_chunk(b"IHDR", struct.pack(">IIBBBBB", w, h, 8, 6 if alpha else 2, 0, 0, 0))
        gama = _png_chunk(b"gAMA", struct.pack(">I", 45455))
        text = _png_chunk(b"tEXt", b"Comment\0x")
        iend = _png_chunk(b"IEND", b"")
        sig = b"\x89PNG\r\n\x1a\n"
        cuts = sorted(rng.randrange(len(z) + 1) for _ in range(4))
        parts = [z[a:b] for a, b in zip([0] + cuts, cuts + [len(z)])]
        splits = [[z], [b""] + parts + [b""], [z[:1], b"", z[1:]], [z[i:i + 8] for i in range(0, len(z), 8)], [z, b""]]
        for sp in splits:
            f = sig + ihdr + gama + text + b"".join(_png_chunk(b"IDAT", d) for d in sp) + iend
            got = decode_png(f)
            assert (got.w, got.h, got.alpha, got.data) == (w, h, alpha, px), "valid PNG with %d IDAT chunks misread" % len(sp)
            n += 1
        idat = [_png_chunk(b"IDAT", d) for d in parts]
        bad_crc = bytearray(idat[1] if len(parts[1]) else idat[0])
        bad_crc[-1] ^= 1
        raw_short = raw[:-(1 + w * bpp)] if h > 1 else raw[:-1]
        broken = [
            ("crc", sig + ihdr + gama + idat[0] + bytes(bad_crc) + b"".join(idat[2:]) + iend),
            ("chunk-layout", sig + ihdr + gama + idat[0] + text + b"".join(idat[1:]) + iend),
            ("chunk-layout", sig + ihdr + gama + b"".join(idat)),
            ("chunk-layout", sig + ihdr + gama + b"".join(idat) + iend + b"\0"),
            ("chunk-layout", sig + ihdr + idat[0] + gama + b"".join(idat[1:]) + iend),
            ("chunk-layout", sig + ihdr + gama + iend),
            ("ihdr", sig + gama + ihdr + b"".join(idat) + iend),
            ("zlib", sig + ihdr + gama + _png_chunk(b"IDAT", z[:-5]) + _png_chunk(b"IDAT", b"") + iend),
            ("zlib", sig + ihdr + gama + _png_chunk(b"IDAT", b"") + iend),
            ("zlib", sig + ihdr + gama + _png_chunk(b"IDAT", z) + _png_chunk(b"IDAT", b"\0") + iend),
            ("raster-length", sig + ihdr + gama + _png_chunk(b"IDAT", zlib.compress(raw_short, 9)) + iend),
            ("raster-length", sig + ihdr + gama + _png_chunk(b"IDAT", zlib.compress(raw + b"\0", 9)) + iend),
            ("signature", b"\x89PNG\r\n\x1a\r" + ihdr + gama + b"".join(idat) + iend),
        ]
        for cls, f in broken:
            try:
                decode_png(f)
            except DecodeError as ex:
                assert ex.cls == cls, "broken PNG judged as %r, expected %r (%s)" % (ex.cls, cls, ex)
            else:
                raise AssertionError("broken PNG (%s) accepted" % cls)
            n += 1
    return n


def _mask_shift(m):
    if m == 0:
        raise DecodeError("masks", "zero channel mask")
    s = 0
    while not (m >> s) & 1:
        s += 1
    if (m >> s) != 0xFF:
        raise DecodeError("masks", "mask %08x is not an 8-bit field" % m)
    return s


def decode_bmp(b):
    if len(b) < 14 + 40:
        raise DecodeError("header", "file shorter than the headers (%d bytes)" % len(b))
    magic, fsize, r1, r2, off = struct.unpack("<2sIHHI", b[:14])
    if magic != b"BM":
        raise DecodeError("header", "bad magic %r" % magic)
    if fsize != len(b):
        raise DecodeError("file-size", "file_size field %d, actual %d" % (fsize, len(b)))
    (hs,) = struct.unpack("<I", b[14:18])
    if hs not in (40, 52, 56, 108, 124) or 14 + hs > len(b):
        raise DecodeError("header", "info header size %d" % hs)
    w, h, planes, bpp, comp, isz = struct.unpack("<iiHHII", b[18:18 + 20])
    if planes != 1 or w <= 0 or h == 0:
        raise DecodeError("header", "planes=%d w=%d h=%d" % (planes, w, h))
    topdown = h < 0
    h = abs(h)
    if (bpp, comp) not in ((24, 0), (32, 0), (32, 3)):
        raise DecodeError("header", "bit depth %d with compression %d" % (bpp, comp))
    masks = None
    hdr_end = 14 + hs
    if comp == 3:
        if hs >= 56:
            masks = struct.unpack("<IIII", b[14 + 40:14 + 56])
        elif hs == 52:
            masks = struct.unpack("<III", b[14 + 40:14 + 52]) + (0,)
        else:
            masks = struct.unpack("<III", b[hdr_end:hdr_end + 12]) + (0,)
            hdr_end += 12
    if off < hdr_end:
        raise DecodeError("data-offset", "data offset %d inside the headers (end %d)" % (off, hdr_end))
    stride = ((w * bpp + 31) // 32) * 4
    if off + stride * h != len(b):
        raise DecodeError("raster-length", "data offset %d + %d rows of %d bytes != file length %d" % (off, h, stride, len(b)))
    if isz not in ((stride * h,) if comp == 3 else (0, stride * h)):
        raise DecodeError("image-size", "image_size field %d, raster is %d" % (isz, stride * h))
    out = bytearray()
    alpha = False
    if comp == 3:
        shifts = [_mask_shift(m) // 8 if m else None for m in masks]
        if any(m and (_mask_shift(m) % 8) for m in masks):
            raise DecodeError("masks", "mask not byte aligned")
        if None in shifts[:3]:
            raise DecodeError("masks", "missing colour mask")
        alpha = shifts[3] is not None
        used = [s for s in shifts if s is not None]
        if len(set(used)) != len(used):
            raise DecodeError("masks", "overlapping masks")
    for y in range(h):
        fy = y if topdown else h - 1 - y
        row = b[off + fy * stride:off + fy * stride + w * (bpp // 8)]
        if comp == 3:
            n = 4 if alpha else 3
            o = bytearray(n * w)
            for ch in range(n):
                o[ch::n] = row[shifts[ch]::4]
        else:
            step = bpp // 8
            o = bytearray(3 * w)
            o[0::3] = row[2::step]
            o[1::3] = row[1::step]
            o[2::3] = row[0::step]
        out += o
    return Im(w, h, alpha, 8, bytes(out))


_WS = b" \t\r\n\x0b\x0c"


def decode_ppm(b):
    """P6, and P7 with TUPLTYPE RGB / RGB_ALPHA.  Samples wider than 8 bits are taken in phosg's
    own (little-endian, host order) convention; only the 8-bit files are claimed to be standard."""
    if b[:2] == b"P6":
        pos = 2
        toks = []
        for _ in range(3):
            if pos >= len(b) or b[pos] not in _WS:
                raise DecodeError("header", "P6 header: missing whitespace at %d" % pos)
            while pos < len(b) and b[pos] in _WS:
                pos += 1
            s = pos
            while pos < len(b) and 48 <= b[pos] <= 57:
                pos += 1
            if s == pos:
                raise DecodeError("header", "P6 header: number expected at %d" % s)
            toks.append(int(b[s:pos]))
        if pos >= len(b) or b[pos] not in _WS:
            raise DecodeError("header", "P6 header: no whitespace after maxval")
        pos += 1
        w, h, maxval = toks
        nch, alpha = 3, False
    elif b[:3] == b"P7\n":
        end = b.find(b"ENDHDR\n")
        if end < 0:
            raise DecodeError("header", "P7 without ENDHDR")
        fields = {}
        for line in b[3:end].split(b"\n"):
            if not line or line.startswith(b"#"):
                continue
            k, _, v = line.partition(b" ")
            if k in fields and k != b"TUPLTYPE":
                raise DecodeError("header", "P7 duplicate %r" % k)
            fields[k] = v.strip()
        try:
            w, h, depth, maxval = (int(fields[k]) for k in (b"WIDTH", b"HEIGHT", b"DEPTH", b"MAXVAL"))
        except (KeyError, ValueError) as ex:
            raise DecodeError("header", "P7 header field: %r" % (ex,))
        tt = fields.get(b"TUPLTYPE", b"")
        if (tt, depth) == (b"RGB", 3):
            nch, alpha = 3, False
        elif (tt, depth) == (b"RGB_ALPHA", 4):
            nch, alpha = 4, True
        else:
            raise DecodeError("header", "P7 TUPLTYPE %r with DEPTH %d" % (tt, depth))
        pos = end + 7
    else:
        raise DecodeError("header", "not P6/P7: %r" % b[:2])
    if w <= 0 or h <= 0 or maxval <= 0:
        raise DecodeError("header", "w=%d h=%d maxval=%d" % (w, h, maxval))
    cw = 8 if maxval < 256 else 16 if maxval < 65536 else 32 if maxval < (1 << 32) else 64
    need = w * h * nch * (cw // 8)
    if len(b) - pos != need:
        raise DecodeError("raster-length", "raster is %d bytes, header implies %d" % (len(b) - pos, need))
    return Im(w, h, alpha, cw, b[pos:]), maxval


# --------------------------------------------------------------------------------------------------
# workload

class Case:
    __slots__ = ("id", "kind", "flags", "fam", "name", "want", "file", "value_oracle", "group", "ladder")


def all_dims(quick):
    """all (w,h) in [1,8]^2; every w in 9..64 (so every residue of w mod 4, many times) with h in {1,2,3}
    (quick: one of them, rotating); tall narrow strips; 64x64."""
    dims = [(w, h) for w in range(1, 9) for h in range(1, 9)]
    if quick:
        dims += [(w, 1 + w % 3) for w in range(9, 65)]
        dims += [(1 + h % 3, h) for h in range(9, 65, 11)]
    else:
        dims += [(w, h) for w in range(9, 65) for h in (1, 2, 3)]
        dims += [(w, h) for h in range(9, 65, 11) for w in (1, 2, 3)]
    dims.append((64, 64))
    return dims


CONTENTS = ("gradient", "zero", "max", "random", "everybyte")
CW_MAX = {8: 0xFF, 16: 0xFFFF, 32: 0xFFFFFFFF, 64: 0xFFFFFFFFFFFFFFFF}
# maxvals that select a sample width at its boundary (Netpbm: < 256 one byte, else two)
BOUNDARY_MAXVALS = (1, 254, 256, 65534)


def generate(tier, seed):
    """Returns list of Case.  Dimensions are enumerated; container sub-variants and pixel contents
    rotate (quick) or are crossed (thorough); random contents depend on the seed."""
    rng = random.Random(seed * 7919 + 17)
    quick = tier == "quick"
    dims = all_dims(quick)
    cases = []
    rot = itertools.count(seed)  # rotating selector, offset by the seed

    def add(kind, fam, group, name, want, file=None, value_oracle=True, both_streams=False, prefixes=True, history=False):
        c = Case()
        c.id = len(cases)
        c.kind = kind
        c.fam, c.group, c.name, c.want, c.file = fam, group, name, want, file
        # every case: fmemopen + a real pipe; the both_streams sample: additionally a real file through fdopen,
        # fopen and the two path constructors (prefixes through one of them) and prefixes through the pipe
        c.flags = (F_PREFIX if prefixes else 0) | F_MEM | F_PIPE | ((F_FILE | F_PIPEPRE) if both_streams else 0) | \
                  (F_HISTORY if history else 0)
        c.value_oracle = value_oracle
        c.ladder = None
        cases.append(c)
        return c

    def contents_for(n):
        if quick:
            k = next(rot)
            return [CONTENTS[(k + i) % len(CONTENTS)] for i in range(n)]
        return list(CONTENTS)

    # ---- PPM family inputs ------------------------------------------------------------------
    # (family, magic/tupltype, gray?, alpha?, widths with the value oracle, widths observed only)
    ppm_fams = [
        ("p6", "P6", False, False, (8, 16, 32, 64), ()),
        ("p7-rgb", "RGB", False, False, (8, 16, 32, 64), ()),
        ("p7-rgba", "RGB_ALPHA", False, True, (8, 16, 32, 64), ()),
        ("p5", "P5", True, False, (8, 16), (32, 64)),
        ("p7-gray", "GRAYSCALE", True, False, (8, 16), (32, 64)),
        ("p7-graya", "GRAYSCALE_ALPHA", True, True, (8, 16), (32, 64)),
    ]
    ppm_rot = itertools.count(seed)  # own counter: `rot` advances twice per case, which would pin the parity
    size_rot = itertools.count(seed)  # rotates the relation (=, -1, +1) of size-ladder files to their boundary

    def ppm_file(tag, w, h, nch, maxval, samples, style):
        if tag in ("P5", "P6"):
            return write_pnm(tag, w, h, maxval, samples, style)
        return write_p7(w, h, nch, maxval, tag, samples, style)

    def ppm_case(fam, tag, gray, alpha, cw, ext, w, h, content, maxval, style, both, note=""):
        nch = (1 if gray else 3) + (1 if alpha else 0)
        samples = gen_samples(rng, content, w * h * nch, cw, maxval, w, nch)
        data = expand_gray(samples, w, h, alpha, cw) if gray else samples
        want = Im(w, h, alpha, cw, data)
        f = ppm_file(tag, w, h, nch, maxval, samples, style)
        famx = "%s-cw%d" % (fam, cw)
        add(0, famx, fam + ("-ext" if ext else ""),
            "%s %dx%d maxval=%d content=%s hdrstyle=%d len=%d%s" % (famx, w, h, maxval, content, style, len(f), note),
            want, f, value_oracle=not ext, both_streams=both)

    for fam, tag, gray, alpha, cws, ext_cws in ppm_fams:
        for cw in cws + ext_cws:
            ext = cw in ext_cws
            for di, (w, h) in enumerate(dims):
                if ext and (quick or di % 3) and not (w <= 4 and h <= 4):
                    continue  # wide gray samples are outside the format definition: a thinner sweep
                for content in contents_for(1 if (quick or ext) else len(CONTENTS)):
                    k = next(rot)
                    maxval = CW_MAX[cw]
                    if not ext and cw <= 16 and k % 9 == 0:
                        mv = BOUNDARY_MAXVALS[(k // 9) % 4]
                        if (mv < 256) == (cw == 8):
                            maxval = mv
                    style = k % (PNM_STYLES if tag in ("P5", "P6") else P7_STYLES)
                    ppm_case(fam, tag, gray, alpha, cw, ext, w, h, content, maxval, style, next(ppm_rot) % 8 == 0)
            # size ladder: total file length (header text + raster) on every 2^k / 3*2^k, exactly and +-1 where some
            # (w, h, header style) reaches it - stdio buffers and block-wise readers work in such units
            if ext and quick:
                continue
            nch = (1 if gray else 3) + (1 if alpha else 0)
            nstyles = PNM_STYLES if tag in ("P5", "P6") else P7_STYLES
            hdr_len = {}
            index = {}
            for w in range(1, 65):
                for h in range(1, 65):
                    for style in range(nstyles):
                        hk = (len(str(w)), len(str(h)), style)
                        if hk not in hdr_len:
                            hdr_len[hk] = len(ppm_file(tag, w, h, nch, CW_MAX[cw], b"", style))
                        index.setdefault(hdr_len[hk] + w * h * nch * (cw // 8), []).append((w, h, style))
            sizes_sorted = sorted(index)
            for B in size_boundaries(256, sizes_sorted[-1] + 1):
                for rel, sz, (w, h, style) in pick_rotating(index, sizes_sorted, B, quick, size_rot, rng):
                    content = CONTENTS[next(rot) % len(CONTENTS)]
                    ppm_case(fam, tag, gray, alpha, cw, ext, w, h, content, CW_MAX[cw], style, next(ppm_rot) % 8 == 0,
                             note=" size-ladder=%d%s" % (B, rel))

    # ---- BMP family inputs ------------------------------------------------------------------
    bmp_variants = []  # (fam, bpp, bitfields, header_size, topdown, gap, perm)
    for hs in BMP_HEADER_SIZES:
        for td in (False, True):
            for gap in (0, 1, 6):
                bmp_variants.append(("bmp24", 24, False, hs, td, gap, None))
                bmp_variants.append(("bmp32", 32, False, hs, td, gap, None))
    bf_variants = []
    for perm in PERMS:
        for hs in (56, 108, 124):
            for td in (False, True):
                for gap in (0, 5):
                    bf_variants.append(("bmp32bf", 32, True, hs, td, gap, perm))
    for fam, variants, per_dim_q, per_dim_t in (("bmp24", [v for v in bmp_variants if v[0] == "bmp24"], 2, 10),
                                                ("bmp32", [v for v in bmp_variants if v[0] == "bmp32"], 1, 6),
                                                ("bmp32bf", bf_variants, 3, 24)):
        vi = seed  # walks through all variants so that every one is used
        for (w, h) in dims:
            n = per_dim_q if quick else per_dim_t
            if w * h > 1024:
                n = max(1, n // 3)
            for _ in range(n):
                _, bpp, bitf, hs, td, gap, perm = variants[vi % len(variants)]
                vi += 1
                content = CONTENTS[next(rot) % len(CONTENTS)]
                nch = 4 if bitf else 3
                data = gen_samples(rng, content, w * h * nch, 8, 255, w, nch)
                want = Im(w, h, bitf, 8, data)
                f = write_bmp(rng, want, bpp, bitf, hs, td, gap, perm or (2, 1, 0, 3))
                name = "%s %dx%d hdr=%d %s gap=%d%s content=%s len=%d" % (
                    fam, w, h, hs, "top-down" if td else "bottom-up", gap,
                    (" masks(rgba byte)=%s" % (perm,)) if bitf else "", content, len(f))
                add(0, fam, fam, name, want, f, both_streams=True)
        if len(variants) > len(dims) * (per_dim_q if quick else per_dim_t):
            raise AssertionError("not every %s variant used" % fam)
        # tiny images behind a gap that is at least as long as their pixel data, every run, both row orders:
        # a truncation inside the gap leaves enough bytes after the headers to be mistaken for the raster
        _, bpp, bitf, _, _, _, _ = variants[0]
        for (w, h) in ((1, 1), (2, 1), (1, 2), (2, 2)):
            for td in (False, True):
                hs = 56 if bitf else 40
                perm = PERMS[(seed + w + 2 * h) % len(PERMS)] if bitf else None
                nch = 4 if bitf else 3
                data = gen_samples(rng, "random", w * h * nch, 8, 255, w, nch)
                want = Im(w, h, bitf, 8, data)
                f = write_bmp(rng, want, bpp, bitf, hs, td, 16, perm or (2, 1, 0, 3))
                add(0, fam, fam, "%s %dx%d hdr=%d %s gap=16%s content=random len=%d" % (
                    fam, w, h, hs, "top-down" if td else "bottom-up",
                    (" masks(rgba byte)=%s" % (perm,)) if bitf else "", len(f)), want, f, both_streams=True)
        # size ladder: total file length on every 2^k / 3*2^k, exactly and +-1 (the gap before the pixel data is free,
        # so every length is reachable: dimensions pick the raster, the gap the remainder)
        for B in size_boundaries(256, 14 + 124 + 48 + 4 * 64 * 64):
            for rels in rels_for(quick, size_rot):
                for rel in rels[:1] if quick else rels:
                    sz = B + {"=": 0, "-1": -1, "+1": 1}[rel]
                    _, _, _, hs, td, _, perm = variants[vi % len(variants)]
                    vi += 1
                    cands = [(w, h) for w in range(1, 65) for h in range(1, 65)
                             if 0 <= sz - (14 + hs + bmp_stride(w, bpp) * h) <= 48] or \
                            [(w, h) for w in range(1, 65) for h in range(60, 65)
                             if 0 <= sz - (14 + hs + bmp_stride(w, bpp) * h) <= 400]
                    if not cands:
                        continue
                    w, h = rng.choice(cands)
                    gap = sz - (14 + hs + bmp_stride(w, bpp) * h)
                    content = CONTENTS[next(rot) % len(CONTENTS)]
                    nch = 4 if bitf else 3
                    data = gen_samples(rng, content, w * h * nch, 8, 255, w, nch)
                    want = Im(w, h, bitf, 8, data)
                    f = write_bmp(rng, want, bpp, bitf, hs, td, gap, perm or (2, 1, 0, 3))
                    if len(f) != sz:
                        raise AssertionError("bmp size ladder: built %d bytes, wanted %d" % (len(f), sz))
                    add(0, fam, fam, "%s %dx%d hdr=%d %s gap=%d%s content=%s len=%d size-ladder=%d%s" % (
                        fam, w, h, hs, "top-down" if td else "bottom-up", gap,
                        (" masks(rgba byte)=%s" % (perm,)) if bitf else "", content, len(f), B, rel), want, f, both_streams=True)
                if quick:
                    break

    # ---- save cases -------------------------------------------------------------------------
    save_rot = itertools.count(seed)
    for cw in (8, 16, 32, 64):
        for alpha in (False, True):
            for di, (w, h) in enumerate(dims):
                if cw > 8 and quick and (di + cw // 16 + alpha) % 2 and not (w <= 8 and h <= 8):
                    continue
                for ci, content in enumerate(contents_for(1 if quick else (len(CONTENTS) if cw == 8 else 2))):
                    nch = 4 if alpha else 3
                    data = gen_samples(rng, content, w * h * nch, cw, CW_MAX[cw], w, nch)
                    want = Im(w, h, alpha, cw, data)
                    fam = "save-cw%d%s" % (cw, "a" if alpha else "")
                    r4 = next(save_rot) % 4
                    add(1, fam, "save", "%s %dx%d content=%s" % (fam, w, h, content), want,
                        both_streams=(r4 == 0), history=(w * h <= 64 and ci == 0) or r4 == 1)

    # ---- size ladder for the PPM / BMP writers ----------------------------------------------
    # dimensions chosen so that the length of the file the writer produces (predicted here, noted by the judge from
    # the bytes really written) lands on every 2^k / 3*2^k, exactly and +-1 where some (w, h) reaches it
    for cw in (8, 16, 32, 64):
        for alpha in (False, True):
            for fmtn in (("ppm", "bmp", "png-raster") if cw == 8 else ("ppm",)):
                index = {}
                for w in range(1, 65):
                    for h in range(1, 65):
                        index.setdefault(predicted_saved_len(fmtn, w, h, alpha, cw), []).append((w, h))
                sizes_sorted = sorted(index)
                for B in size_boundaries(256, sizes_sorted[-1] + 1):
                    for rel, sz, (w, h) in pick_rotating(index, sizes_sorted, B, quick, size_rot, rng):
                        content = CONTENTS[next(rot) % len(CONTENTS)]
                        nch = 4 if alpha else 3
                        data = gen_samples(rng, content, w * h * nch, cw, CW_MAX[cw], w, nch)
                        fam = "save-cw%d%s" % (cw, "a" if alpha else "")
                        add(1, fam, "save", "%s %dx%d content=%s size-ladder(%s)=%d%s" % (fam, w, h, content, fmtn, B, rel),
                            Im(w, h, alpha, cw, data), both_streams=(next(save_rot) % 4 == 0))

    # ---- encoded-size ladder for the PNG writer ---------------------------------------------
    # (w, h, alpha, mode): the executor steers the number of incompressible bytes L by measuring the real writer's
    # output until the IDAT payload hits every target size, and dumps every file it produced on the way
    lad = [(64, 64, True, 0), (64, 64, True, 1), (64, 64, False, 0), (64, 64, False, 2),
           (rng.randrange(40, 64), rng.randrange(40, 65), True, 2), (rng.randrange(40, 65), rng.randrange(40, 64), False, 1),
           (rng.randrange(12, 31), rng.randrange(12, 31), True, 0), (rng.randrange(12, 31), rng.randrange(12, 31), False, 1)]
    if not quick:
        for i in range(24):
            big = i % 3 != 2
            lad.append((rng.randrange(48, 65) if big else rng.randrange(8, 48), 64 if i % 6 == 0 else rng.randrange(33, 65),
                        i % 2 == 0, (i // 2) % 3))
    for vi, (w, h, alpha, mode) in enumerate(lad):
        nch = 4 if alpha else 3
        fill = (0x00, 0xFF)[vi] if vi < 2 else rng.randrange(256)
        base = rng.randbytes(w * h * nch)
        c = add(2, "ladder-png-cw8%s" % ("a" if alpha else ""), "ladder",
                "png-ladder %dx%d alpha=%d mode=%s fill=0x%02x" % (w, h, alpha, ("random-prefix", "random-suffix",
                                                                                  "alternating-prefix")[mode], fill),
                Im(w, h, alpha, 8, base))
        # IDAT payload onto every target; the total file length (bit 31) onto every 2^k / 3*2^k
        c.ladder = (mode, fill, 8 if quick else 16, list(PNG_LADDER_TARGETS) + [0x80000000 | b for b in PNG_LADDER_POW])
    return cases


def write_case_file(path, cases):
    with open(path, "wb") as f:
        f.write(b"C06CASE1" + struct.pack("<I", len(cases)))
        for c in cases:
            fam = c.fam.encode()
            name = c.name.encode()
            rec = struct.pack("<IBBH", c.id, c.kind, c.flags, len(fam)) + fam + struct.pack("<H", len(name)) + name
            rec += struct.pack("<IIBBI", c.want.w, c.want.h, int(c.want.alpha), c.want.cw, len(c.want.data)) + c.want.data
            if c.kind == 0:
                rec += struct.pack("<I", len(c.file)) + c.file
            elif c.kind == 2:
                mode, fill, window, targets = c.ladder
                rec += struct.pack("<BBHI", mode, fill, window, len(targets)) + struct.pack("<%dI" % len(targets), *targets)
            f.write(struct.pack("<I", len(rec)) + rec)


# --------------------------------------------------------------------------------------------------
# observation files

class _R:
    def __init__(self, b):
        self.b, self.p = b, 0

    def u(self, n):
        v = int.from_bytes(self.b[self.p:self.p + n], "little")
        self.p += n
        return v

    def blob(self):
        n = self.u(4)
        v = self.b[self.p:self.p + n]
        self.p += n
        return v

    def img(self):
        if self.u(1) == 0:
            w, h, a, cw = self.u(4), self.u(4), self.u(1), self.u(1)
            return Im(w, h, a, cw, self.blob())
        t = self.blob().decode(errors="replace")
        return ("exception", t, self.blob().decode(errors="replace"))


def read_obs(path):
    """yields (type, case_id, reader) — stops silently at a torn final record (process was killed)"""
    try:
        with open(path, "rb") as f:
            b = f.read()
    except FileNotFoundError:
        return
    p = 0
    while p + 4 <= len(b):
        (n,) = struct.unpack("<I", b[p:p + 4])
        if p + 4 + n > len(b):
            return
        r = _R(b[p + 4:p + 4 + n])
        p += 4 + n
        t = r.u(1)
        cid = r.u(4)
        yield t, cid, r


def byteswapped(im):
    b = im.cw // 8
    d = im.data
    return Im(im.w, im.h, im.alpha, im.cw, b"".join(d[i:i + b][::-1] for i in range(0, len(d), b)))


def first_diff(want, got):
    """human description of the first difference between two Im"""
    if (want.w, want.h, want.alpha, want.cw) != (got.w, got.h, got.alpha, got.cw):
        return "header fields: expected %s, got %s" % (want.desc(), got.desc())
    if len(want.data) != len(got.data):
        return "data length: expected %d, got %d" % (len(want.data), len(got.data))
    if want.data == got.data:
        return "identical"
    b = want.cw // 8
    nch = 4 if want.alpha else 3
    for i in range(0, len(want.data), b):
        if want.data[i:i + b] != got.data[i:i + b]:
            s = i // b
            px, ch = divmod(s, nch)
            y, x = divmod(px, want.w)
            return "pixel (x=%d,y=%d) channel %s: expected 0x%x, got 0x%x" % (
                x, y, "RGBA"[ch], int.from_bytes(want.data[i:i + b], "little"), int.from_bytes(got.data[i:i + b], "little"))
    return "identical"


# --------------------------------------------------------------------------------------------------
# orchestration

class Result:
    def __init__(self):
        self.evaluations = 0
        self.classes = {}
        self.counters = {}
        self.violations = []
        self.vcounts = {}
        self.samples = []
        self.ub = {}

    def cls(self, k, n=1):
        self.classes[k] = self.classes.get(k, 0) + n

    def count(self, k, n=1):
        self.counters[k] = self.counters.get(k, 0) + n

    def violation(self, key, what, case, **extra):
        self.vcounts[key] = self.vcounts.get(key, 0) + 1
        if self.vcounts[key] <= 5:
            v = {"key": key, "what": what, "case": case}
            v.update(extra)
            self.violations.append(v)


def _wmod(w):
    return "w%%4=%d" % (w % 4)


def run_job(exe, ctx, tag, case_path, ncases, shard, nshards, wrapper=(), extra_args=(), timeout=None, max_restarts=2,
            variant_env=None):
    """One executor process over its share of one case file; restarted after a crashed case (the
    crashed case is skipped).  Returns (obs path, list of run_shard results)."""
    tier, seed, workdir = ctx["tier"], ctx["seed"], ctx["workdir"]
    if timeout is None:
        timeout = TIMEOUT[tier]
    obs = os.path.join(workdir, "%s.%d.obs" % (tag, shard))
    try:
        os.unlink(obs)
    except OSError:
        pass
    start = 0
    runs = []
    for attempt in range(max_restarts + 1):
        r = driver.run_shard(exe, tier, seed, shard, nshards, workdir, "%s.a%d" % (tag, attempt),
                             args=["in=" + case_path, "obs=" + obs, "start=%d" % start, "maxprefix=%d" % MAXPREFIX]
                             + list(extra_args), timeout=timeout, wrapper=wrapper, env=variant_env)
        runs.append(r)
        if r["rc"] == 0 or r["timed_out"]:
            break
        last_idx = None  # index (in the case file) of the case that was running when the process died
        finished = False
        for t, cid, rd in read_obs(obs):
            if t == R_BEGIN:
                last_idx = rd.u(4)
            elif t == R_DONE:
                finished = True  # all cases ran; the non-zero exit is LSan's end-of-process report
        if finished or last_idx is None or last_idx < start:
            break  # died before its first case: restarting cannot help
        start = last_idx + 1
        if start >= ncases:
            break
    return obs, runs


def absorb_runs(res, tag, group, runs, timeout):
    """Turns executor exits / sanitizer logs into violations (same key scheme as the driver, plus [group])."""
    for r in runs:
        fatal, ub = driver.parse_sanitizer_log(r["stderr"])
        for k, v in ub.items():
            res.ub[k] = res.ub.get(k, 0) + v
        meta = {"stage": "c06", "shard": None, "cmd": r["cmd"]}
        if r["timed_out"]:
            raise driver.Inconclusive("c06 executor %s shard %d: watchdog fired (timeout %ss); last case: %s"
                                      % (tag, r["shard"], timeout, r["crumb"]))
        if r["result"]:
            for v in r["result"].get("violations", []):
                res.violation(v["key"], v["what"], v["case"], meta=meta)
        if r["rc"] == 0:
            for k, w in fatal:  # reports that did not stop the process (recoverable leak check)
                res.violation(k, w, "%s: reported by the batched LSan check; the leak:* witnesses name the files" % tag,
                              meta=meta, stderr_tail=driver._tail_for(r["stderr"], w))
            continue
        res.count("executor-aborts:" + group)
        if fatal:
            for k, w in fatal:
                # leak reports (recoverable check or LSan's end-of-process pass) are not tied to one family
                res.violation(k if k.startswith("lsan:") else "%s[%s]" % (k, group), w, r["crumb"], meta=meta,
                              stderr_tail=driver._tail_for(r["stderr"], w))
            continue
        tail = r["stderr"][-3000:]
        if r["rc"] in (2, 3) or "[harness-error]" in tail:
            raise driver.Inconclusive("c06 executor %s shard %d: harness failure rc=%d\n%s" % (tag, r["shard"], r["rc"], tail))
        k = "crash:signal%d" % (-r["rc"]) if r["rc"] < 0 else "crash:exit%d" % r["rc"]
        res.violation("%s[%s]" % (k, group), "executor process died (rc=%d)" % r["rc"], r["crumb"], meta=meta, stderr_tail=tail)


def judge_saved(res, prefix, fmtn, data, want, casename):
    """independent decode of bytes phosg saved for the image `want`"""
    if fmtn == "ppm" and want.cw > 8:
        # only the 8-bit PPM output is claimed to be externally valid; wider output is covered by
        # the exact save->load round trip.  Decoded here (host-order convention) as an observation.
        try:
            got, maxval = decode_ppm(data)
            ok = first_diff(want, got) == "identical" and maxval == CW_MAX[want.cw]
        except DecodeError:
            ok = False
        res.count("observed-only:%s-ppm-wide:%s" % (prefix.split(":")[0], "host-order-decode-identical" if ok else "differs"))
        return
    try:
        if fmtn == "png":
            got = decode_png(data)
        elif fmtn == "bmp":
            got = decode_bmp(data)
        else:
            got, maxval = decode_ppm(data)
            if maxval != CW_MAX[want.cw]:
                raise DecodeError("maxval", "maxval %d for %d-bit channels" % (maxval, want.cw))
    except DecodeError as ex:
        res.violation("%s:%s:invalid:%s" % (prefix, fmtn, ex.cls), "independent decoder rejects the file: %s" % ex,
                      casename + " bytes=" + data[:96].hex() + ("..." if len(data) > 96 else ""))
        return
    d = first_diff(want, got)
    if d == "identical":
        res.count("%s-decoded-identical:%s" % (prefix.split(":")[0], fmtn))
    else:
        res.violation("%s:%s:%s" % (prefix, fmtn, "header-fields" if d.startswith(("header", "data length")) else "pixels"),
                      "independent decoder reads a different image: " + d, casename)


def _head(b):
    return repr(bytes(b[:44]))


def judge_route(res, t, c, rd, routes, direct_saves):
    """object-history records of a save case"""
    route = rd.u(1)
    if t == R_ROUTE:
        cls, name, preserving = rd.blob().decode(), rd.blob().decode(), rd.u(1)
        state = rd.img()
        routes[(c.id, route)] = (cls, name, preserving, state)
        res.cls("history:%s:cw%d" % (cls, c.want.cw))
        if preserving and first_diff(c.want, state) != "identical":
            res.violation("history:%s:object-state-differs" % cls, "the object reports another image than the one it was "
                          "made from: " + first_diff(c.want, state), "%s route: %s" % (c.name, name))
        return
    cls, name, preserving, state = routes[(c.id, route)]
    slot = rd.u(1)
    fmtn = SLOT_NAMES[slot]
    where = "%s route: %s -> save(%s)" % (c.name, name, fmtn)
    if t == R_RSAVE:
        status, eq = rd.u(1), rd.u(1)
        res.evaluations += 1
        if eq == 0:
            res.count("history-save-identical-to-direct:%s" % cls)
            return
        if status:
            et, ew = rd.blob().decode(errors="replace"), rd.blob().decode(errors="replace")
            data = None
        else:
            data = rd.blob()
        if eq == 1:
            ref = direct_saves.get((c.id, slot))
            res.violation("history:%s:%s:differs-from-direct-save" % (cls, fmtn),
                          "saving the %s image gives other bytes than saving the directly constructed image with the same "
                          "pixels: direct starts %s, this starts %s%s" % (
                              cls, _head(ref) if ref is not None else "(direct save threw)",
                              _head(data) if data is not None else "(threw %s: %s)" % (et, ew),
                              "" if data is None or ref is None else " (lengths %d vs %d)" % (len(ref), len(data))), where)
        if status:
            if state.cw == 8 or fmtn == "ppm":
                res.violation("history:%s:%s:threw" % (cls, fmtn), "save threw %s: %s" % (et, ew), where)
            return
        judge_saved(res, "history:%s" % cls, fmtn, data, state, where)
    else:  # R_RLOAD: what phosg's own loader makes of the route's saved bytes
        got = rd.img()
        res.evaluations += 1
        if isinstance(got, tuple):
            res.violation("history:%s:roundtrip-%s:rejected" % (cls, fmtn), "phosg cannot load what it saved: %s: %s"
                          % (got[1], got[2]), where)
            return
        d = first_diff(state, got)
        if d == "identical":
            res.count("history-roundtrip-identical:%s" % cls)
        else:
            res.violation("history:%s:roundtrip-%s:%s" % (cls, fmtn, "header-fields" if d.startswith(("header", "data length"))
                                                          else "pixels"), "save -> load does not reproduce the image: " + d, where)


def note_png_size(res, data, targets=PNG_LADDER_TARGETS):
    """coverage: which boundary sizes the IDAT payload of a PNG written by the real writer actually hit"""
    chunks = png_idat_chunks(data)
    if chunks is None:
        res.count("png-idat:framing-unreadable")
        return None
    total = sum(chunks)
    res.count("png-idat-chunks-per-file:%s" % (len(chunks) if len(chunks) < 4 else "4+"))
    hit = near_boundary(total, targets)
    if hit:
        res.cls("png-idat-size:%d:%s" % hit)
    hit = near_boundary(len(data), PNG_LADDER_POW)
    if hit:
        res.cls("png-file-size:%d" % hit[0])
        res.count("png-file-size-hit:%d:%s" % hit)
    return total


def note_file_size(res, kind, fam, n):
    """coverage: total file lengths within one byte of 2^k / 3*2^k (class per boundary, relation as a counter)"""
    hit = near_boundary(n, FILE_BOUNDARIES)
    if hit:
        res.cls("file-size:%s:%d" % (kind, hit[0]))
        res.count("file-size-hit:%s:%d:%s" % (fam, hit[0], hit[1]))


def judge_ladder(res, c, rd):
    """one probe of the PNG encoded-size ladder: the raster is rebuilt here from the recipe, the file is decoded by
    the independent decoder like any other saved PNG"""
    mode, fill, window, targets = c.ladder
    L, target, phase, status = rd.u(4), rd.u(4), rd.u(1), rd.u(1)
    if status:
        et, ew = rd.blob().decode(errors="replace"), rd.blob().decode(errors="replace")
        data = None
    else:
        data = rd.blob()
    via_stream, measured = rd.u(1), rd.u(4)
    res.evaluations += 1
    res.count("png-ladder-probes:%s" % ("endpoints", "bisection", "window")[phase])
    name = "%s L=%d (steering towards %s %d)" % (c.name, L, "file length" if target >> 31 else "IDAT payload", target & 0x7FFFFFFF)
    if via_stream:
        res.violation("save:png:writer-differs", "save(FILE*) %s" % ("produced different bytes than save()" if via_stream == 1
                      else "and save() disagree on whether the image can be saved"), name)
    if status:
        res.violation("save:png:threw", "save threw %s: %s" % (et, ew), name)
        return
    want = Im(c.want.w, c.want.h, c.want.alpha, 8, ladder_pixels(c.want.data, mode, fill, L))
    total = note_png_size(res, data)
    if total is not None:
        name += " IDAT payload %d bytes in %d chunk(s)" % (total, len(png_idat_chunks(data)))
    res.cls("save:png:ladder:%s:mode%d" % ("cw8a" if c.want.alpha else "cw8", mode))
    judge_saved(res, "save", "png", data, want, name)


def judge(cases_by_id, obs_paths, res, ran=None):
    """Reads observation records and applies the oracle."""
    begun, ended = set(), set()
    routes = {}        # (case id, route) -> (class, name, preserving, reported state)
    direct_saves = {}  # (case id, slot) -> bytes saved by the directly constructed image
    for path in obs_paths:
        for t, cid, rd in read_obs(path):
            if t == R_BEGIN:
                begun.add(cid)
                continue
            if t == R_END:
                ended.add(cid)
                continue
            if t == R_DONE:
                continue
            if t == R_LEAK:
                first_id, n, leaked = rd.u(4), rd.u(4), rd.u(1)
                res.count("lsan-leak-checks")
                if leaked:
                    a, b = cases_by_id[first_id], cases_by_id[cid]
                    coarse = "saved-files" if b.kind in (1, 2) else ("bmp-load" if b.group.startswith("bmp") else "ppm-load")
                    res.violation("leak:%s" % coarse, "LeakSanitizer found memory leaked while loading/saving the %d cases "
                                  "(all their prefixes) ending with this one; the lsan:leak:* report names the allocation" % n,
                                  "cases %d..%d: first=[%s] last=[%s]" % (first_id, cid, a.name, b.name))
                continue
            c = cases_by_id[cid]
            if t in (R_ROUTE, R_RSAVE, R_RLOAD):
                judge_route(res, t, c, rd, routes, direct_saves)
                continue
            if t == R_LADDER:
                judge_ladder(res, c, rd)
                continue
            slot = rd.u(1)
            # family label for keys: input family, or the saved format
            if c.kind == 0:
                fam = c.fam.split("-cw")[0]
            else:
                fam = "saved-" + SLOT_NAMES[slot]
            cwtag = "cw%d%s" % (c.want.cw, "a" if c.want.alpha else "")
            if t == R_LOAD:
                kind = KINDS[rd.u(1)]
                got = rd.img()
                res.evaluations += 1
                op = "load" if c.kind == 0 else "roundtrip"
                if kind == "mem":
                    res.cls("%s:%s:%s:mem:%s" % (op, fam, cwtag, _wmod(c.want.w)))
                    if c.kind == 0:
                        note_file_size(res, "bmp-input" if fam.startswith("bmp") else "ppm-input", fam, len(c.file))
                elif kind == "pipe" and fam in ("bmp24", "saved-bmp"):  # row padding is skipped differently on a pipe
                    res.cls("%s:%s:pipe:%s" % (op, fam, _wmod(c.want.w)))
                else:
                    res.cls("%s:%s:%s" % (op, fam, kind))
                if isinstance(got, tuple) and not c.value_oracle:
                    res.count("observed-only:%s:rejected" % c.fam)
                    continue
                if isinstance(got, tuple):
                    res.violation("%s:%s:valid-file-rejected" % (op, fam),
                                  "valid file rejected with %s: %s" % (got[1], got[2]), c.name + " stream=" + kind)
                    continue
                d = first_diff(c.want, got)
                if d != "identical" and c.kind == 0 and c.want.cw > 8 and first_diff(byteswapped(c.want), got) == "identical":
                    # Byte order of samples wider than 8 bits is not part of the property (phosg keeps host
                    # order, Netpbm says big-endian): a loader that consistently takes the other order is
                    # accepted.  The save->load round trip (kind 1) is exact in any case.
                    res.count("load-identical-other-byte-order:%s" % fam)
                    d = "identical"
                if d == "identical":
                    res.count("%s-identical:%s" % (op, fam))
                elif not c.value_oracle:
                    res.count("observed-only:%s:value-differs" % c.fam)
                elif d.startswith("header fields") or d.startswith("data length"):
                    res.violation("%s:%s:header-fields" % (op, fam), d, c.name + " stream=" + kind)
                else:
                    res.violation("%s:%s:pixels" % (op, fam), d, c.name + " stream=" + kind)
            elif t == R_PSUM:
                kind = KINDS[rd.u(1)]
                flen, n_exc, n_same, n_diff, full_ok = rd.u(4), rd.u(4), rd.u(4), rd.u(4), rd.u(1)
                et = rd.blob().decode(errors="replace")
                res.evaluations += flen
                res.count("prefixes:%s" % fam, flen)
                res.count("prefixes-rejected", n_exc)
                res.count("prefixes-decoded-identically", n_same)
                res.cls(("trunc:%s:%s:mem" % (fam, cwtag)) if kind == "mem" else ("trunc:%s:%s" % (fam, kind)), flen)
                for item in et.split(";"):
                    if item:
                        name, _, n = item.rpartition("=")
                        res.count("truncation-exception:" + name, int(n))
                        res.cls("trunc-exc:%s:%s" % (fam, name), int(n))
                if n_same:
                    res.cls("trunc-identical:%s" % fam, n_same)
                if n_diff:
                    res.vcounts["trunc:%s:decodes-differently" % fam] = \
                        res.vcounts.get("trunc:%s:decodes-differently" % fam, 0) + max(0, n_diff - min(n_diff, 3))
            elif t == R_PDIFF:
                kind = KINDS[rd.u(1)]
                plen = rd.u(4)
                got = rd.img()
                d = first_diff(c.want, got) if not isinstance(got, tuple) else "?"
                flen = len(c.file) if c.kind == 0 else -1
                res.violation("trunc:%s:decodes-differently" % fam,
                              "prefix of %d bytes was accepted and decodes to a different image (%s; %s)"
                              % (plen, got.desc(), d),
                              "%s stream=%s prefix=%d%s" % (c.name, kind, plen, (" of %d" % flen) if flen >= 0 else ""))
            elif t == R_SAVE:
                status = rd.u(1)
                fmtn = SLOT_NAMES[slot]
                res.evaluations += 1
                if status:
                    et, ew = rd.blob().decode(errors="replace"), rd.blob().decode(errors="replace")
                    data = None
                else:
                    data = rd.blob()
                    direct_saves[(cid, slot)] = data
                alt = (("save(FILE*)", rd.u(1)), ("save(const char* filename)", rd.u(1)), ("save(const std::string& filename)", rd.u(1)))
                for wname, code in alt:
                    res.cls("save-writer:%s:%s" % (fmtn, wname.split("(")[1].rstrip(")")))
                    if code:
                        res.violation("save:%s:writer-differs" % fmtn, "%s %s" % (wname, "produced different bytes than save()"
                                      if code == 1 else "and save() disagree on whether the image can be saved"), c.name)
                if status:
                    if c.want.cw == 8 or fmtn == "ppm":
                        res.violation("save:%s:threw" % fmtn, "save threw %s: %s" % (et, ew), c.name)
                    else:
                        res.cls("save:%s:%s:refused" % (fmtn, cwtag))  # documented: 8-bit only
                    continue
                res.cls("save:%s:%s:%s" % (fmtn, cwtag, _wmod(c.want.w)))
                if fmtn == "png":
                    note_png_size(res, data)
                    note_file_size(res, "png-raster", "png-raster-" + cwtag, c.want.h * (1 + c.want.w * (4 if c.want.alpha else 3)))
                else:
                    note_file_size(res, "saved-" + fmtn, "saved-%s-%s" % (fmtn, cwtag), len(data))
                judge_saved(res, "save", fmtn, data, c.want, c.name)
    if ran is not None:
        ran["begun"] = begun
        ran["ended"] = ended


GROUP_ORDER = ["ladder", "p6", "p7-rgb", "p7-rgba", "p5", "p7-gray", "p7-graya", "p5-ext", "p7-gray-ext", "p7-graya-ext",
               "bmp24", "bmp32", "bmp32bf", "save"]


def stage(ctx, st):
    tier, seed, workdir = ctx["tier"], ctx["seed"], ctx["workdir"]
    res = Result()
    t0 = time.time()
    exe = build.build_harness("c06", "asan")
    try:
        res.cls("oracle-selftest:png-decoder", selftest_png_decoder(seed))
    except AssertionError as ex:
        raise driver.Inconclusive("c06: the independent PNG decoder failed its self-test: %s" % ex)
    cases = generate(tier, seed)
    t_gen = time.time() - t0
    by_id = {c.id: c for c in cases}
    groups = {}
    for c in cases:
        groups.setdefault(c.group, []).append(c)
    ncpu = os.cpu_count() or 4
    # shards per group proportional to the prefix work, all groups run concurrently
    work = {g: sum((len(c.file) if c.kind == 0 else 3 * len(c.want.data) + 300) * (2 if c.flags & F_FILE else 1) + 200
                   for c in cs) for g, cs in groups.items()}
    total = sum(work.values()) or 1
    plan = {}
    for g in groups:
        plan[g] = max(1, min(ncpu, round(work[g] * (2.0 * ncpu) / total)))
    if "ladder" in groups:
        plan["ladder"] = min(ncpu, len(groups["ladder"]))  # one steering search per variant, about a second each
    order = [g for g in GROUP_ORDER if g in groups] + [g for g in groups if g not in GROUP_ORDER]
    jobs = []
    for g in order:
        path = os.path.join(workdir, "cases.%s.bin" % g)
        write_case_file(path, groups[g])
        for sh in range(plan[g]):
            jobs.append((g, path, sh))
    t1 = time.time()
    ru0 = resource.getrusage(resource.RUSAGE_CHILDREN)
    with ThreadPoolExecutor(max_workers=ncpu) as ex:
        done = list(ex.map(lambda j: run_job(exe, ctx, "c06-" + j[0], j[1], len(groups[j[0]]), j[2], plan[j[0]]), jobs))
    obs_all = []
    for (g, path, sh), (obs, runs) in zip(jobs, done):
        obs_all.append(obs)
        absorb_runs(res, "c06-" + g, g, runs, TIMEOUT[tier])
    t_run = time.time() - t1
    ru1 = resource.getrusage(resource.RUSAGE_CHILDREN)
    cpu_run = (ru1.ru_utime + ru1.ru_stime) - (ru0.ru_utime + ru0.ru_stime)
    t2 = time.time()
    ran = {}
    judge(by_id, obs_all, res, ran)
    t_judge = time.time() - t2

    # what never ran because its family's process died too often
    for g, cs in groups.items():
        missing = [c for c in cs if c.id not in ran["ended"]]
        if missing:
            res.count("cases-not-completed:" + g, len(missing))
    n_missing = sum(1 for c in cases if c.id not in ran["ended"])
    if n_missing and not res.vcounts:
        raise driver.Inconclusive("c06: %d cases have no END record although no executor died" % n_missing)
    for c in cases[:1] + cases[len(cases) // 2:len(cases) // 2 + 1] + cases[-1:]:
        res.samples.append("[%s] %s" % (c.fam, c.name))
    res.samples.append("every prefix length 0..len-1 of each generated or saved file <= %d bytes through fmemopen; all BMP "
                       "and a sample of PPM/saved files also through a real pipe and a real ftruncate'd file (fdopen, fopen, "
                       "Image(const char*), Image(const std::string&)); every file fully loaded through a pipe" % MAXPREFIX)
    for g in groups:
        res.count("cases:" + g, len(groups[g]))
    png_hit = {}
    for k in res.classes:
        if k.startswith("png-idat-size:"):
            _, b, rel = k.split(":")
            png_hit.setdefault(int(b), []).append(rel)
    png_sizes = {str(b): " ".join(sorted(png_hit.get(b, []))) or "not hit" for b in PNG_LADDER_TARGETS}
    res.samples.append("PNG IDAT payload sizes hit (=, -1, +1): " + ", ".join("%s[%s]" % (b, ",".join(sorted(png_hit.get(b, []))) or "-")
                                                                                for b in PNG_LADDER_TARGETS))
    return {"evaluations": res.evaluations, "classes": res.classes, "counters": res.counters,
            "violations": res.violations, "violation_counts": res.vcounts, "samples": res.samples,
            "ub_observations": res.ub,
            "extra": {"images": len(cases), "png_idat_boundary_sizes_hit": png_sizes, "gen_s": round(t_gen, 1), "run_s": round(t_run, 1),
                      "judge_s": round(t_judge, 1), "executor_cpu_s": round(cpu_run, 1), "processes": sum(plan.values()), "variant": "asan"}}


_VG_KINDS = [
    ("Invalid write", "invalid-write"), ("Invalid read", "invalid-read"), ("Invalid free", "invalid-free"),
    ("Mismatched free", "mismatched-free"), ("Conditional jump or move depends on uninitialised", "uninitialised-use"),
    ("Use of uninitialised value", "uninitialised-use"), ("points to uninitialised byte", "uninitialised-output"),
    ("contains uninitialised byte", "uninitialised-output"), ("are definitely lost", "leak-definite"),
    ("Source and destination overlap", "overlap"), ("Process terminating with default action", "fatal-signal"),
]


def parse_memcheck(text):
    """-> list of (key, what).  key = memcheck:<kind>:<first phosg function below the error line>"""
    import re
    lines = text.splitlines()
    out, seen = [], set()
    for i, ln in enumerate(lines):
        m = re.match(r"==\d+== (.*)", ln)
        if not m:
            continue
        msg = m.group(1)
        kind = next((k for pat, k in _VG_KINDS if pat in msg), None)
        if not kind:
            continue
        func = "unknown"
        for ln2 in lines[i + 1:i + 40]:
            m2 = re.match(r"==\d+==\s+(?:at|by) 0x[0-9A-Fa-f]+: (.+?) \((\S+?):\d+\)", ln2)
            if m2 and m2.group(1).startswith("phosg::"):
                func = re.sub(r"\(.*", "", m2.group(1)) + "@" + m2.group(2)
                break
            if re.match(r"==\d+==\s*$", ln2):
                break
        key = "memcheck:%s:%s" % (kind, func)
        if key not in seen:
            seen.add(key)
            out.append((key, msg))
    return out


def _memcheck(ctx):
    """Reduced workload (small images of every family, all their prefixes) under valgrind memcheck, plain build."""
    res = Result()
    seed, workdir = ctx["seed"], ctx["workdir"]
    exe = build.build_harness("c06", "plain")
    cases = generate("quick", seed)
    by_id = {c.id: c for c in cases}
    groups = {}
    for c in cases:
        groups.setdefault(c.group, []).append(c)
    jobs = []
    for g, cs in groups.items():
        # per (family incl. width): the smallest few files, at least one with padding (w%4 != 0)
        per_fam = {}
        for c in cs:
            per_fam.setdefault(c.fam, []).append(c)
        pick = []
        for fam, fcs in per_fam.items():
            small = [c for c in fcs if c.want.w * c.want.h <= 12 and c.want.w in (1, 2, 3)][:4]
            pick += small
        if not pick:
            continue
        path = os.path.join(workdir, "mc-cases.%s.bin" % g)
        write_case_file(path, pick)
        jobs.append((g, path, pick))
    wrapper = ["valgrind", "-q", "--error-exitcode=99", "--leak-check=full", "--show-leak-kinds=definite",
               "--errors-for-leak-kinds=definite", "--num-callers=30"]
    timeout = 3 * 3600

    def one(j):
        g, path, pick = j
        obs = os.path.join(workdir, "mc-%s.obs" % g)
        try:
            os.unlink(obs)
        except OSError:
            pass
        r = driver.run_shard(exe, ctx["tier"], seed, 0, 1, workdir, "c06-mc-" + g,
                             args=["in=" + path, "obs=" + obs, "maxprefix=%d" % MAXPREFIX], timeout=timeout, wrapper=wrapper)
        return obs, r

    with ThreadPoolExecutor(max_workers=os.cpu_count() or 4) as ex:
        done = list(ex.map(one, jobs))
    obs_all = []
    for (g, path, pick), (obs, r) in zip(jobs, done):
        obs_all.append(obs)
        meta = {"stage": "c06-memcheck", "shard": None, "cmd": r["cmd"]}
        errs = parse_memcheck(r["stderr"])
        for k, w in errs:
            res.violation(k, w, "valgrind memcheck over %d small %s files and all their prefixes; first: %s"
                          % (len(pick), g, pick[0].name), meta=meta, stderr_tail=driver._tail_for(r["stderr"], w))
        if r["timed_out"]:
            raise driver.Inconclusive("c06 memcheck %s: watchdog fired (timeout %ss); last case: %s" % (g, timeout, r["crumb"]))
        if r["rc"] != 0 and not errs:
            tail = r["stderr"][-3000:]
            if r["rc"] in (2, 3) or "[harness-error]" in tail:
                raise driver.Inconclusive("c06 memcheck %s: harness failure rc=%d\n%s" % (g, r["rc"], tail))
            res.violation("memcheck:crash:exit%d[%s]" % (r["rc"], g), "executor died under valgrind (rc=%d)" % r["rc"],
                          r["crumb"], meta=meta, stderr_tail=tail)
        res.cls("memcheck:%s" % g, len(pick))
    ran = {}
    sub = Result()
    judge(by_id, obs_all, sub, ran)  # same value oracle on the uninstrumented build
    for v in sub.violations:
        res.violation(v["key"], v["what"], v["case"] + " (plain build under valgrind)")
    for k, n in sub.vcounts.items():
        res.vcounts[k] = max(res.vcounts.get(k, 0), n)
    res.evaluations = sub.evaluations
    res.count("memcheck-evaluations", sub.evaluations)
    return {"evaluations": res.evaluations, "classes": res.classes, "counters": res.counters,
            "violations": res.violations, "violation_counts": res.vcounts, "samples": [],
            "extra": {"memcheck_cases": sum(len(j[2]) for j in jobs), "memcheck_variant": "plain+valgrind"}}


def stage_memcheck(ctx, st):
    """thorough tier: a reduced workload under valgrind memcheck (plain build) — uninitialised pixel bytes
    become visible because every decoded image is compared (memcmp) and written out (write syscall)."""
    return _memcheck(ctx)
