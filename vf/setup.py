"""setup_cmd: warm the build cache from files on disk only (offline)."""
import os
import sys
import time
from concurrent.futures import ThreadPoolExecutor

from . import build, props


def main():
    t = time.time()
    props.SPECS.load_all()
    variants = set()
    for spec in props.SPECS.values():
        for st in spec["stages"]:
            if st.get("kind", "harness") == "harness" and st.get("link_lib", True):
                if not st.get("tiers") or "quick" in st["tiers"]:
                    variants.add(st.get("variant", "asan"))
    from . import driver
    jobs = []
    for pid, spec in props.SPECS.items():
        for st in driver._with_release_mirror(spec, "quick"):
            if st.get("kind", "harness") == "harness" and (not st.get("tiers") or "quick" in st["tiers"]):
                jobs.append(st)
                if st.get("link_lib", True):
                    variants.add(st.get("variant", "asan"))

    def one(st):
        try:
            build.build_harness(st["name"], st.get("variant", "asan"), extra_cxx=st.get("extra_cxx", ()),
                                extra_link=st.get("extra_link", ()), sources=st.get("sources"),
                                link_lib=st.get("link_lib", True))
            return None
        except build.BuildError as ex:
            return "%s: %s" % (st["name"], ex)
    for v in sorted(variants):
        build.build_lib(v)
        print("built lib variant", v, "%.1fs" % (time.time() - t))
    # harnesses that Python stages build themselves (not visible as `kind: harness` stages)
    jobs += [{"name": "c05_fuzz", "variant": "fuzz", "extra_link": ["-fsanitize=fuzzer"]},
             {"name": "c09_fuzz", "variant": "fuzz", "extra_link": ["-fsanitize=fuzzer"]},
             {"name": "c06", "variant": "asan"}, {"name": "c09", "variant": "asan"}, {"name": "c10", "variant": "asan"},
             {"name": "c11", "variant": "asan"}]
    try:
        build.build_c("c15_child")
    except Exception as ex:  # noqa: BLE001
        print("SETUP WARNING: c15_child:", ex)
    jobs = [j for j in jobs if os.path.exists(os.path.join(build.VERIF, "harness", j["name"] + ".cc"))]
    with ThreadPoolExecutor(max_workers=8) as ex:
        errs = [e for e in ex.map(one, jobs) if e]
    for e in errs:
        print("SETUP WARNING:", e[:2000])
    print("setup done in %.1fs (%d harnesses)" % (time.time() - t, len(jobs)))
    return 0


if __name__ == "__main__":
    sys.exit(main())
