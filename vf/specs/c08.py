"""C08 — string splitting, joining, trimming and replacing obey their algebraic laws."""
from ..oracles import c08 as _oracle
from ..props_common import ASSUME_COMMON

_WRAP = ["-Wl,--wrap=vswprintf"]

SPEC = {
    "level": "exploration",
    "technique": "runtime monitoring: the real helpers run under ASan/UBSan on enumerated and random strings while "
                 "inline reference definitions, the split/join laws and CPython shlex judge every result",
    "rule": "split / split(wstring) / split_context / join: every string over {',','a',' ','(',')','\"','\\\\','\\0'} up to length "
            "6 (quick) / 8 (thorough) x delimiters {',',' ','a','\\0'} x max_splits {0,1,2,3,len,SIZE_MAX} (lengths 7-8: all of these for ',', "
            "max_splits {0,2} and no wide variant for the other delimiters), plus every string over "
            "{',','x','[',']','{','>','<','\\'','\\\\'} up to 5/7; join: every list of up to 4/6 items from {\"\",\"a\",\",\",\"ab\",\"\\0\"} "
            "in deque<string> with const char* delimiters (main harness; vector/list and char, std::string, literal delimiters, "
            "join(split) with char/std::string incl. NUL delimiter, strip_trailing_zeroes<wstring> and strip_multiline_comments<wstring> "
            "run in the separate optional_build stage c08-wide); strip_*/skip_* (both overloads, every "
            "offset): every string over {' ','\\t','\\r','\\n','a','\\0'} up to 6/8; strip_multiline_comments: every string over "
            "{'/','*','\\n','a','\\0'} up to 8/10; starts_with/ends_with: all pairs over {'a','b','\\0'}; toupper/tolower: all 1- and "
            "2-byte strings; str_replace_all: every string over {'a','b','\\0'} up to 7/10 x 8 targets x 7 replacements; split_args: "
            "totality on every string over {'a',' ','\\t','\"','\\'','\\\\','\\0'} up to 6/8 and token equality with shlex.split on the "
            "unambiguous shell subset (every subset string over {'a','b',' ','\\t','\"','\\'','\\\\'} up to 6/7 + 6400/64000 "
            "grammar-generated command lines up to 4 KiB); 10^4/10^6 rounds of random strings over all 256 byte values up to 4 KiB "
            "through every helper; split_context deep-nesting family: chains of 1..40 open brackets x 7 bracket-kind patterns (one kind, mixed, mixed with a quoted string innermost) x delimiters at every level or only outside x {balanced, extra opener, outermost/innermost/middle closer missing, stray closer} x max_splits {0,1,3}, random nestings up to depth 40(+40); join re-entrancy (c08-wide): items whose operator std::string() joins children and iterators computing join(split(row)) on dereference; string_printf/string_vprintf/wstring_printf producing every length 0..72/80 (both sides of 2*len(fmt)+16), "
            "both sides of 0x400, 0x800, 4 KiB, 64 KiB and 2^20 bytes / 2^18 (thorough 2^20) wide chars, each case once per stale errno "
            "value in {0,EILSEQ,ERANGE,EINVAL,ENOMEM} set immediately before the call; every other call into phosg is preceded by "
            "vf::poison_errno(); printf outputs with embedded NULs (%c/%lc with 0 at start, middle, end, several, only NULs) "
            "along the same length ladder, compared by length and bytes. "
            "distinct_nontrivial = distinct (helper, input shape) classes, e.g. split:leading-delim:cap-binds, "
            "split_context-rejected:inner-delim:unlimited, join:deque:cstr:first-empty, args:shlex:dquote+escape:2-4-tokens.",
    "level_text": "Every helper named by the property is executed on all inputs of a small scope chosen to contain the corner "
                  "shapes the laws quantify over (empty string, only delimiters, leading/trailing delimiter, escapes at end of "
                  "input, embedded NUL) and on seeded random 256-value strings; results are compared with independent "
                  "definitions. Absence of a violation is evidence for the explored inputs only.",
    "stages": [
        {"name": "c08", "variant": "asan", "shards": (16, 16), "extra_link": _WRAP},
        {"name": "c08", "tag": "c08-shlex", "variant": "asan", "shards": (8, 16), "args": ["only=shlex"],
         "args_fn": _oracle.shlex_case_args, "extra_link": _WRAP},
        # less common instantiations of the generic templates (wstring strip_*, join over vector/list with char /
        # std::string delimiters); skipped, not fatal, if they no longer compile against the tree
        {"name": "c08_wide", "tag": "c08-wide", "variant": "asan", "shards": (8, 16), "optional_build": True},
    ],
    "min_evaluations": 1000000,
    "min_classes": {"quick": 150, "thorough": 150},
    "required_classes": [
        "split:empty:*", "split:only-delims:*", "split:leading-delim:cap-binds", "split:trailing-delim:unlimited",
        "wsplit:both-ends-delim:*", "split_context:leading-delim:*", "split_context:inner-delim:cap-binds",
        "split_context-rejected:*", "split_context-ambiguous:*",
        "join:deque:cstr:first-empty", "join:deque:cstr-empty:first-nonempty", "join:deque:cstr-long:no-items", "join:no-delimiter",
        "join:vector:char:first-empty", "join:list:string:first-empty", "join-split:vector:nul-delimiter", "join:reentrant:item-conversion", "join:reentrant:iterator",
        "split_context-deep:depth17:unbalanced:*", "split_context-deep:depth18-32:balanced:mixed", "split_context-deep:depth33-40:balanced:mixed+quote",
        "split_context-deep:depth16:balanced:*", "split_context-deep:depth<=15:stray-closer:*",
        "strip_trailing_zeroes-wstring:all-zeroes", "comments-wstring:unterminated:newlines",
        "strip:all-whitespace", "strip:both-ends", "strip:trailing-nul", "skip:*:embedded-nul",
        "comments:closed:newlines", "comments:unterminated:newlines", "comments:unterminated:plain", "starts_with:*:true", "ends_with:affix-longer:false",
        "case:byte-high", "str_replace_all:match-at-end:grows", "str_replace_all:match-at-start:shrinks",
        "split_args:total:threw:*", "split_args:total:returned:*+nul",
        "args:shlex:error:*", "args:shlex:dquote+escape:*", "args:shlex:squote:*", "args:shlex:escape:*",
        "random:strip:*", "random:wsplit:wide-code-points", "random:comments:unterminated:newlines",
        "printf:output-nul:at-start", "printf:output-nul:in-middle", "printf:output-nul:at-end", "printf:output-nul:several",
        "printf:output-nul:only-nuls", "wprintf:output-nul:at-start", "wprintf:output-nul:in-middle", "wprintf:output-nul:at-end",
        "wprintf:output-nul:several", "wprintf:output-nul:only-nuls",
        "printf:errno-EILSEQ:len>=1Mi", "printf:errno-ENOMEM:len1Ki", "printf:errno-0:len0", "printf:errno-ERANGE:len<1Ki",
        "wprintf:result-at-least-2x-format+16:*", "wprintf:result-below-2x-format+16:*", "wprintf:result-not-longer-than-format:*",
        "wprintf:errno-EILSEQ:result-at-least-2x-format+16", "wprintf:errno-0:result-at-least-2x-format+16",
        "wprintf:errno-ERANGE:result-at-least-2x-format+16", "wprintf:errno-EINVAL:result-below-2x-format",
        "wprintf:errno-ENOMEM:result-not-longer-than-format",
    ],
    "exhaustive": {"quick": False, "thorough": False},
    "exhaustive_note": "the small-alphabet sub-spaces listed in `rule` are enumerated completely (counts in samples / "
                       "event_counters); the 256-value strings up to 4 KiB and the formatted results are sampled",
    "assumptions": ASSUME_COMMON + [
        "C locale (toupper/tolower are compared with the ASCII-only mapping)",
        "split_context: laws about top-level delimiters are applied only when every closing bracket matches the innermost "
        "open one; inputs with stray/crossed closers are checked for the join inverse and piece-count bounds only; delimiters "
        "that are brackets, quotes or backslash are not exercised",
        "split_args: token equality is demanded only on the subset where sh, bash and shlex agree (see vf/oracles/c08.py); "
        "elsewhere (NUL bytes, backslash inside single quotes, \\x inside double quotes, empty quoted arguments) only totality",
        "str_replace_all is never called with an empty target; skip_* offsets stay within [0, length]",
        "wstring_printf: the vswprintf monitor compares va_list register-save offsets (x86-64 SysV layout); it never reads or writes errno",
        "no helper's result may depend on the errno value found on entry (stale errno from earlier handled failures is legal state)",
    ],
}
