"""C18 — time, duration and size formatting is total and value-faithful."""
from ..props_common import ASSUME_COMMON

SPEC = {
    "level": "exploration",
    "technique": "runtime monitoring: real format_duration/format_time/format_size/parse_size/timeval code under "
                 "ASan+UBSan, judged by an exact-integer re-evaluation of the printed text, an independent civil "
                 "calendar (table walk in C++ and CPython datetime), and round-trip agreement",
    "rule": "format_duration: every microsecond in B +- W for B in {1 s, 60 s, 3600 s, 86400 s} x precision -1..6 "
            "(W = 2 s thorough, 20 ms quick; enumerated completely), k*60 s +- 1 us for k <= 10^4, k*3600 s, k*86400 s, "
            "2^k +- 1, 10^k, random to 2^63 snapped next to rounding ties; decimal rounding ties of the seconds field (m + 0.5) * 10^(6-p) us "
            "(every tie for p <= 3, strided for p = 4, 5, plus the ties next to every whole second) +- 1 us x 10 minute/hour/day offsets; format_time: every day boundary 1970..2100 +- 1 s, "
            "Feb 28/29 -> Mar 1 and Dec 31 -> Jan 1 of every year to 9999, hh:59:59 / 23:59:59.999999 carries, random to "
            "9999-12-31, process TZ = UTC+05:45; call histories (one thread and four concurrent threads) mixing format_time_natural on the same/neighbouring second, format_duration and format_size before format_time; "
            "CALL PAIRS of every function (format_time, format_duration x precision, format_size x flag, parse_size, usecs_to_timeval, timeval_to_usecs): f(a), f(a+d) [, f(a) [, f(a+d)]] back to back on one thread "
            "(optionally around an unjudged call or interleaved with a pair of another function), on two concurrent threads, and ping-ponged between two threads; a from the boundary/random families, "
            "d from a delta table in every natural unit of the argument: 0, +-1 unit, +-(half) a printed digit, aligned-cell boundaries / midpoint / mirror, +-k*U, "
            "+-k*2^j*U + r*U + jitter for j in {8,15,16,24,31,32,33,40,48,56,63}, r in [-61,61], U in {us, ms, s, min, h, day, printed digit} / {byte, 1024^m, printed digit} (every step that fits the domain, e.g. k*2^32 s + r s), "
            "other precision / flag, f's own round trip; every call judged alone by the same oracles (event counters pairs:<fn>:<delta class> = pairs executed per class); PRIOR HISTORIES: for every entry of the shared catalogue of earlier unrelated uses of phosg's helpers (harness/vf_history.hh, ~280: one string_printf output of every length 0..132 and "
            "2^k +- 3 up to 64 Ki and 1 Mi, runs of 5000 short outputs with / without a leading 8 KiB one, join/split/fgets over a size ladder, the escapers, the formatters, hash hex) plus a seeded sample of two-step histories: "
            "fresh thread -> prior -> mini-workload of every function (format_duration over all five magnitude branches x 4-5 precisions, format_time, format_size both flags + parse_size read-back, parse_size -> format_size, timeval both ways; ~130 calls), "
            "each judged alone by the same oracles (classes prior:<family>:<fn>); sizes: 2^(10k) x {1, 1023/1024, 1.005, 1.995, 999.994, 1023.99, ...} +- 2, "
            "2^k +- 1, 0..4095, rounding ties, random, both include_bytes values, and canonical texts back through "
            "parse_size -> format_size; timeval: 2^k +- 1, second boundaries, random to 2^63. "
            "distinct_nontrivial = distinct (function, magnitude branch, precision, shape of the seconds field / calendar "
            "kind / unit) classes, e.g. dur:lt1h:p0:pad0, time:nonleap-century, size:GB:1:tie, py:time:2xxx:feb29, pair:time:pow2*s, pairmode:pingpong.",
    "level_text": "Every call is a real execution of the library code with memory/UB monitors on; the duration oracle is "
                  "exact integer arithmetic on the printed fields with an inclusive half-unit bound, so it has no "
                  "floating-point opinion of its own; the calendar is decided twice by code that shares nothing with "
                  "gmtime_r/strftime. The unit-boundary windows are enumerated completely (thorough: +-2 s at 1 us "
                  "resolution x 8 precisions), the rest is boundary-biased sampling; a defect confined to a duration far "
                  "from every unit boundary, carry point and rounding tie could be missed. Call-sequence dependence (memoisation, "
                  "per-thread or shared caches keyed on a narrowed / truncated / hashed argument) is exercised by the call-pair family: "
                  "~320 delta classes x >= 1000 pairs each in quick; a dependence on a history longer than the previous few calls of the "
                  "same function, or on a delta outside the table, could be missed. Dependence on what the calling thread did earlier with the shared "
                  "helpers (string_printf and friends) is exercised by the prior-history family: each of the ~280 catalogue entries once per run, on a fresh thread; "
                  "a dependence on a prior outside the catalogue (other lengths, three-step histories, state shared between threads) could be missed.",
    "stages": [
        {"name": "c18", "variant": "asan", "shards": (16, 16), "timeout": (600, 3600)},
        {"kind": "py", "name": "c18-dump", "func": "c18:stage", "shards": (8, 16)},
    ],
    "min_evaluations": 1000000,
    "min_classes": {"quick": 200, "thorough": 200},
    "required_classes": [
        "dur:lt1s:p-1:*", "dur:lt1m:p0:*", "dur:lt1h:p0:pad0", "dur:lt1h:p3:carry60", "dur:lt1d:p6:*", "dur:ge1d:p-1:*",
        "dur:ge1d:p0:pad0", "dur:lt1d:p0:pad0", "dur:*:tie",
        "tiefam:p0", "tiefam:p3", "tiefam:p5", "tiefam:offset:59min", "tiefam:offset:2d-1min",
        "history:after-format_time_natural:same-second", "history:after-format_time_natural:next-second",
        "history:after-format_time:same-second", "history-threads:after-format_time_natural:same-second", "history:after-start:*",
        "pair:time:zero", "pair:time:unit", "pair:time:digit", "pair:time:half-digit", "pair:time:snap", "pair:time:mult",
        "pair:time:pow2*us", "pair:time:pow2*ms", "pair:time:pow2*s", "pair:time:pow2*min", "pair:time:pow2*h", "pair:time:pow2*day",
        "pair:dur:zero", "pair:dur:digit", "pair:dur:half-digit", "pair:dur:snap", "pair:dur:other-precision", "pair:dur:roundtrip",
        "pair:dur:pow2*us", "pair:dur:pow2*s", "pair:dur:pow2*digit",
        "pair:size:zero", "pair:size:digit", "pair:size:half-digit", "pair:size:unit", "pair:size:mult", "pair:size:snap", "pair:size:pow2*byte",
        "pair:size:other-flag", "pair:size:roundtrip", "pair:parse:zero", "pair:parse:same-buffer", "pair:parse:other-unit", "pair:parse:roundtrip",
        "pair:u2tv:pow2*us", "pair:u2tv:pow2*s", "pair:u2tv:roundtrip", "pair:tv2u:pow2*us", "pair:tv2u:pow2*s", "pair:tv2u:zero",
        "pairmode:seq", "pairmode:threads", "pairmode:pingpong", "py:time:pair:pow2*s", "py:time:pair:zero",
        "prior:none:dur", "prior:printf-len:dur", "prior:printf-len:time", "prior:printf-len:size", "prior:printf-len:timeval",
        "prior:printf-run:dur", "prior:printf-run:size", "prior:join:dur", "prior:fgets:size", "prior:split:dur", "prior:escape:dur",
        "prior:format:size", "prior:hash-hex:dur", "prior:two-step:dur", "prior:two-step:size",
        "time:day-boundary", "time:leap-year", "time:leap-century", "time:nonleap-century", "time:common-year",
        "time:second59", "time:year-end", "time:random:99xx", "time:random:19xx", "time:extreme",
        "size:bytes:0:*", "size:KB:0:*", "size:MB:1:*", "size:GB:0:*", "size:TB:0:*", "size:PB:0:*", "size:EB:0:*",
        "size:EB:0:16EB-not-demanded", "size:reverse:EB", "size:reverse:KB",
        "timeval:pow2", "timeval:usec999999", "timeval:random",
        "py:time:1xxx:feb29", "py:time:9xxx:*", "py:time:2xxx:common", "py:dur:lt1h:p0", "py:size:0",
    ],
    "exhaustive": {"quick": False, "thorough": False},
    "exhaustive_note": "format_duration is enumerated completely on [B-W, B+W] x precision -1..6 for the four unit boundaries "
                       "(W = 20 ms quick, 2 s thorough = 1.28e8 calls) and on k*60 s +- 1 us for k <= 10^4; format_time on every "
                       "day boundary of 1970..2100 and on the Feb/Mar and Dec/Jan transitions of every year to 9999; "
                       "format_size on 0..4095 and 2^k +- 1. Everything else is sampled.",
    "assumptions": ASSUME_COMMON + [
        "64-bit size_t and time_t (the SIZE_T_BITS == 64 branch of format_size/parse_size is the one executed)",
        "CPython datetime/timedelta proleptic-Gregorian arithmetic is correct for 1970..9999",
        "precision > 6, timestamps after 9999-12-31 and sizes printed as 16.00 EB are outside the statement and not judged",
        "timeval_to_usecs above 2^63 relies on two's-complement wrap of a signed multiply: UBSan records it "
        "(ub_observations), the value oracle still judges the result",
    ],
}
