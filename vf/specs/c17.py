"""C17 — command-line Arguments: classification, typed getters, used/unused bookkeeping."""
from ..props_common import ASSUME_COMMON
from ..oracles import c17 as _oracle

SPEC = {
    "level": "exploration",
    "technique": "runtime monitoring of the real Arguments class (ASan+UBSan build) against a generator that knows the integer "
                 "(128-bit fit decision), a 6-line reference classifier, CPython float() and shlex.split",
    "rule": "integers: every n in [-70000,70000] rendered in 8 spellings (decimal, 0-led decimal, bare/0x hex in both cases, "
            "bare/0-prefixed octal, '-' forms) x {DEFAULT,HEX,DECIMAL,OCTAL} x {i8,u8,i16,u16,i32,u32,i64,u64} through named and "
            "positional getters with and without default (exhaustive for every spelling under each format it is a documented spelling of; the same texts under the other formats, e.g. 0x1f as DECIMAL or 10 as HEX: every n in thorough, |n|<=1024 and every 8th n in quick); windows +-(2^k+d) for k=7..66, 2^64-2^k+d, 10^k+d, "
            "numerals beyond 2^64 and 2^128, seeded random magnitudes; ~70 non-numeral texts; absent arguments; "
            "token lists: all 111111 lists of <=5 tokens over {a,-,--,-x,-xy,--k,--k=v,--k=,--=v,\"\"} x every subset of read "
            "groups before assert_none_unused (exhaustive), half of them with get_multi on an absent name first and single getters for it afterwards; "
            "dash-run tokens: all 16105 lists of <=4 tokens over {---,----,-----,---=v,---a,'--- ',a,--,-,-x,--k=v} with the same two phases "
            "(exhaustive; option name = text after the first two dashes); repeated options: --r given 2-3 times over the texts "
            "{80,300,70000,-3,1.5,http,''} (392 value lists) alone or between a positional and another option x every sequence of "
            "<=4 / <=3 calls from {get_multi<string|int16_t|uint8_t|double>(r), assert_none_unused, get<string>(0), get<int32_t>(n)} "
            "with an instance-level read model (exhaustive); getter histories on one object: 5 command lines x 84 getter calls (13 per option name n,s,f,x,r incl. bool/string/int/float/default/"
            "get_multi, 6 per position 0,1,5, assert_none_unused): every call alone, every ordered pair, every ordered triple over the calls "
            "sharing a target, seeded cross-target triples - each call must yield what the statement gives for an absent target / what it "
            "yields first on a fresh object for a present one, assert_none_unused judged by a read model; "
            "get_multi over repeated numeric options; floats: literal grammar "
            "tables + seeded long decimals vs CPython float(); one-string constructor: all strings <=5 (quick) / <=6 (thorough) "
            "over {a,-,=,' ',\",',\\} inside the unambiguous shell subset + seeded structured lines vs shlex.split; "
            "byte alphabet: command lines and tokens with bytes >= 0x80 (UTF-8 sequences of 2/3/4 bytes, lone continuation/lead bytes, 0x80, 0xFF, NBSP/NEL) "
            "- all strings <=4 / <=5 over the shell alphabet + {C3,A9,80,FF} containing a high byte (exhaustive), 15 units x 11 syntactic contexts "
            "(bare, '..', \"..\", backslash, next to quotes/blanks, split across quotes) x 8 token roles (positional, option name, option value, flag group), "
            "seeded natural-text lines - vs shlex.split on the latin-1 decoding; for every command line the one-string form and the token-list form must be "
            "indistinguishable through the getters; typed getters on any text with a high byte must throw invalid_argument; all 11111 lists of <=4 tokens "
            "over a 10-token byte grammar x every getter subset through the three list constructors and the one-string form; 570 flag groups with high bytes "
            "x 3 contexts x 2 forms judged by reading-independent laws. "
            "distinct_nontrivial = distinct (part, type, format, outcome class) / (list length, #positionals, #names) / "
            "(quoting features) classes, e.g. int:i16:HEX:unfit-low, tokens:len5:pos2:names3, cmdline:dqbs:sp:ntok.",
    "level_text": "Exploration with exhaustively enumerated small scopes: the integer range, token-list and getter-subset spaces "
                  "named in the quantifier are enumerated completely in both tiers; 32/64-bit boundaries, beyond-64-bit numerals, "
                  "floats and command lines are boundary tables plus seeded samples.  Holds only for the executions produced.",
    "stages": [
        {"name": "c17", "variant": "asan", "shards": (16, 16), "args_fn": _oracle.args_fn, "timeout": (600, 3600)},
    ],
    "min_evaluations": 1000000,
    "min_classes": {"quick": 250, "thorough": 250},
    "required_classes": [
        "int:i8:DEFAULT:unfit-high", "int:i8:HEX:unfit-low", "int:u8:DECIMAL:unfit-low", "int:i16:OCTAL:fits-neg",
        "int:u16:HEX:fits-pos", "int:i32:DEFAULT:unfit-high", "int:u32:DECIMAL:unfit-high", "int:i64:HEX:fits-neg",
        "int:u64:OCTAL:fits-neg", "int:i64:DEFAULT:undemanded", "int:*:not-a-numeral", "int:u8:DEFAULT:fits-zero",
        "absent:int:*", "absent:float:*", "absent:string-bool-multi",
        "tokens:len5:pos5:names0", "tokens:len5:pos0:names4", "tokens:len0:pos0:names0", "tokens:maxgroups*",
        "multi:*:fit", "multi:*:unfit", "typed-used:*",
        "dashes:len4:pos0:names4", "dashes:len4:pos4:names0", "dashes:maxgroups*",
        "repeated:n2:i16-fails-midway:*", "repeated:n3:i16-fails-midway:*", "repeated:n3:*:u8-fails-midway:*", "repeated:n3:*:dbl-fails-midway",
        "repeated:n3:i16-all-ok:*",
        "history:pairs-all-ordered", "history:triples-same-target", "history:world0:name:absent", "history:world0:name:present",
        "history:world0:position:absent", "history:world1:name:absent", "history:world4:name:present",
        "float:double:exp:*", "float:float:frac:neg", "float:double:garbage", "float:double:subnormal:*", "float:double:overflow-inf:*",
        "cmdline:dq*", "cmdline:sq*", "cmdline:bs*", "cmdline:bare:*", "cmdline:*:tab:*",
        "cmdline-hi:role:positional:bare", "cmdline-hi:role:positional:sq", "cmdline-hi:role:positional:dq", "cmdline-hi:role:positional:bs",
        "cmdline-hi:role:option-name:bare", "cmdline-hi:role:option-name:sq", "cmdline-hi:role:option-name:dq", "cmdline-hi:role:option-name:bs",
        "cmdline-hi:role:option-value:bare", "cmdline-hi:role:option-value:sq", "cmdline-hi:role:option-value:dq", "cmdline-hi:role:option-value:bs",
        "cmdline-hi:role:flag-group:*", "cmdline-hi:unit:utf8-2:*", "cmdline-hi:unit:utf8-3:*", "cmdline-hi:unit:utf8-4:*",
        "cmdline-hi:unit:lone-continuation:*", "cmdline-hi:unit:lone-lead:*", "cmdline-hi:unit:0x80:*", "cmdline-hi:unit:0xff:*",
        "cmdline-hi:adjacent:after-quote", "cmdline-hi:adjacent:before-quote", "cmdline-hi:adjacent:after-blank", "cmdline-hi:adjacent:before-blank",
        "cmdline-hi:adjacent:line-start", "cmdline-hi:adjacent:line-end",
        "bytes:len4:pos4:names0", "bytes:len4:pos0:names4", "bytes:maxgroups*",
        "flag-hi:utf8-2:with-letters:*", "flag-hi:0xff:only-high:*", "flag-hi:lone-continuation:*", "flag-hi:0x80:*",
    ],
    "exhaustive": {"quick": False, "thorough": False},
    "exhaustive_note": "enumerated completely in both tiers: n in [-70000,70000] x 12 (format, documented spelling) pairs x 8 integer types; all token "
                       "lists of <=5 tokens over the 10-token grammar x all subsets of read groups; all command-line strings up to "
                       "length 5/6 over a 7-letter alphabet that lie in the unambiguous shell subset.  Boundary/float/random parts are not.",
    "assumptions": ASSUME_COMMON + [
        "CPython float() and shlex.split(posix=True) are the value/tokenisation references; only the unambiguous shell subset is "
        "judged (no empty quoted token, no backslash inside single quotes, only \\\" and \\\\ inside double quotes)",
        "not judged: leading blanks or '+', 64-bit targets with magnitude >= 2^63, DEFAULT-format digit strings like \"089\", "
        "inf/nan/hex-float texts, single-valued getters on a repeated option, embedded NUL bytes (never generated: argv tokens cannot hold them and a "
        "shell cannot pass them)",
        "tokens are byte strings; a byte >= 0x80 is an ordinary token character (never a blank, quote or digit), the reference tokenisation is "
        "shlex.split on the latin-1 decoding.  For flag groups containing bytes >= 0x80 the statement does not say whether a multi-byte letter is one "
        "flag or several: only reading-independent laws are judged there (ASCII letters are flags, the high bytes are classified under some name, "
        "exactly-once via assert_none_unused, both forms agree)",
        "phosg is observed through its public getters only; 'classified exactly once' = assert_none_unused() silent after every "
        "item predicted by the reference classifier has been read, plus probes of 19 candidate names",
    ],
}
