"""C13 — KDTree equals a brute-force multiset under any insert / erase / erase-while-iterating history."""
from ..props_common import ASSUME_COMMON

SPEC = {
    "level": "exploration",
    "technique": "runtime monitoring: vector-of-(point,value) multiset model + private BSP-invariant walk after every "
                 "operation + linear-scan comparison of every query, under ASan/LSan/UBSan",
    "rule": "exh: every insertion sequence (with repetition: duplicate points, coordinate ties) of <=4 (quick) / <=6 "
            "(thorough) points of the 3x3 grid {0,1,2}^2 into KDTree<Vector2<int64_t>,int64_t>, values distinct (index) "
            "and, for <=3 (quick) / <=4 (thorough) points, also constant; then (a) every erase order, "
            "(b) every subset of visit positions erased by a begin()/++/erase_advance sweep, (c) destruction after every "
            "erase-order prefix (<=4 points). "
            "rnd: seeded 300-op histories (insert biased to ties/duplicates, erase present, erase absent, erase_advance "
            "sweeps; grow/balanced/phased fill-drain profiles) on 2-D grids of side 2..12 and 3-D grids of side 2..5. "
            "destroy: seven empty-tree destruction scenarios, each in a forked child. "
            "Entry points: insertion through insert(pt,v) and emplace(pt) (value 0; every insert/emplace choice enumerated "
            "in the exh insert phase, mixed elsewhere), erasure through erase(pt,v), erase_advance in sweeps and "
            "erase_advance on the iterator returned by insert; iteration with ++it, `it++;`, the value of `*it++`, "
            "range-for, and both `it != end` / `!(it == end())` tests (sweeps: every mask x 3 increment forms for <=4 "
            "points). "
            "After EVERY operation: structural walk through private members (parent/child back pointers, child.dim == "
            "(parent.dim+1)%D, strict < on every `before` descendant and >= on every `after_or_equal` descendant, "
            "reachable count == node_count, reachable multiset == model) and size(); on every state not seen earlier in "
            "the enumeration: full iteration, at/exists(pt) for every grid point (+4 off-grid points), within/exists(lo,hi) "
            "for all 36 proper half-open boxes over the grid + 6 empty/inverted/out-of-grid boxes (every state for <=4 "
            "points, a hashed 1/16 (5 points) / 1/128 (6 points) of the states otherwise), erase() of absent entries. "
            "distinct_nontrivial = distinct (operation, dimension, shape of the deleted/inserted node: leaf / only-before / "
            "only-after / both children x tie on the split axis x root/inner; query outcome kind; grid side) classes.",
    "level_text": "Exploration of a stated finite scope with an inline oracle: exhaustive for short histories on the 3x3 "
                  "grid (where every tie/duplicate pattern of up to 6 points occurs), seeded random beyond. The verdict "
                  "covers exactly the executions run; a defect needing more than 6 points on a 3-valued axis AND not hit by "
                  "the 300-op random histories would be missed.",
    "stages": [
        {"name": "c13", "variant": "asan", "shards": (1, 1), "args": ["only=destroy"], "tag": "c13-destroy"},
        {"name": "c13", "variant": "asan", "shards": (16, 16), "args": ["only=exh"], "tag": "c13-exh"},
        # 6-point sequences: 9^6 x 720 erase orders = 3.8e8 histories cost ~14000 CPU-s under ASan and ~1800 CPU-s with
        # the -O2 UBSan-only build (measured on 1/2000 slices), so this stage uses ubsan2.  Memory monitors (ASan/LSan)
        # are on for everything up to 5 points and for rnd.  (`permsample=N` would run only 1/N of the erase orders of
        # every sequence, selected by (order index + 31*sequence index + seed) % N == 0; not used.)
        {"name": "c13", "variant": "ubsan2", "shards": (16, 16), "args": ["only=exh", "kmin=6", "k=6"],
         "tag": "c13-exh6", "tiers": ["thorough"]},
        {"name": "c13", "variant": "asan", "shards": (16, 16), "args": ["only=rnd"], "tag": "c13-rnd"},
    ],
    "min_evaluations": 1000000,
    "min_classes": {"quick": 80, "thorough": 80},
    "required_classes": [
        "erase:2d:both:tie:root", "erase:2d:only-before:tie:*", "erase:2d:only-before:notie:*", "erase:2d:only-after:tie:*",
        "erase:2d:leaf:*", "erase:2d:absent:*", "erase:3d:both:tie:*", "erase:3d:only-before:*",
        "erase_advance:2d:both:tie:*", "erase_advance:2d:only-before:tie:*", "erase_advance:2d:leaf:*", "erase_advance:3d:*",
        "insert:2d:root:*", "insert:2d:before:*", "insert:2d:after:tie", "insert:2d:after:duplicate-point", "insert:3d:*",
        "sweep:2d:erase-all", "sweep:2d:erase-some", "sweep:2d:erase-none", "sweep:3d:erase-some",
        "at:hit", "at:hit-duplicate-point", "at:miss", "within:result-some", "within:result-all", "within:result-empty",
        "within:empty-tree:*", "exists-box:true", "exists-box:false", "erase:absent-value-sweep",
        "insert:2d:via-emplace", "insert:3d:via-emplace", "erase:2d:via-iterator-returned-by-insert",
        "iterate-form:pre-increment", "iterate-form:range-for", "iterate-form:post-increment-value",
        "iterate-form:post-increment-statement", "sweep-form:pre-increment", "sweep-form:post-increment-statement",
        "sweep-form:post-increment-value",
        "destroy:2d:non-empty", "destroy:3d:non-empty", "destroy:empty:forked-scenario",
        "rnd:2d:side2", "rnd:2d:side12", "rnd:3d:side*",
    ],
    "exhaustive": {"quick": False, "thorough": False},
    "exhaustive_note": "Enumerated completely: quick - all 7381 insertion sequences of 0..4 points of the 3x3 grid x all "
                       "erase orders (162,009 histories with distinct values) x all 2^k erase_advance visit masks x all "
                       "erase-order prefixes for destruction; thorough - the same for 0..5 points (66,430 sequences, 7,247,889 "
                       "erase-order histories with distinct values; asan). 6 points: all 531,441 sequences x all 720 erase orders "
                       "(382,637,520 histories) x all 64 erase_advance masks (34,012,224 sweeps); -O2 UBSan build, no ASan. Random histories are sampled, hence exhaustive=false overall.",
    "assumptions": ASSUME_COMMON + [
        "private members are reached with `#define private public` around the single KDTree.hh include (header-only "
        "template; every std header it uses is included before); no phosg source is modified",
        "within() on an EMPTY tree may throw out_of_range or return {} (both accepted); emplace() instantiates only "
        "with zero value arguments (emplace(pt) adds (pt, 0)) and is exercised in that form; at(pt) may return the value of any entry stored at pt",
        "a state reached by an operation prefix identical to one already checked earlier in the enumeration is not "
        "re-observed for 5- and 6-point sequences (KDTree is deterministic); return value and size() are still checked",
        "if a forked probe shows that ~KDTree() on an empty tree crashes, the exh/rnd parts release empty trees without "
        "running the destructor (the crash itself is reported by the destroy stage under key destroy:empty-tree)",
        "6-point exhaustive stage runs without ASan/LSan (UBSan + model + structural walk only)",
    ],
}
