"""C13 — KDTree equals a brute-force multiset under any insert / erase / erase-while-iterating history."""
from ..props_common import ASSUME_COMMON

SPEC = {
    "level": "exploration",
    "technique": "runtime monitoring: vector-of-(point,value) multiset model + private BSP-invariant walk after every "
                 "operation + linear-scan comparison of every query, under ASan/LSan/UBSan",
    "rule": "exh: every insertion sequence (with repetition: duplicate points, coordinate ties) of <=4 (quick) / <=6 "
            "(thorough) points of the 3x3 grid {0,1,2}^2 into KDTree<Vector2<int64_t>,int64_t>, values distinct (index) "
            "and, for <=3 (quick) / <=4 (thorough) points, also constant; then (a) every erase order, "
            "(b) every subset of visit positions erased by a begin()/++/erase_advance sweep, (c) destruction after every "
            "erase-order prefix (<=4 points). "
            "rnd: seeded 300-op histories (insert biased to ties/duplicates, erase present, erase absent, erase_advance "
            "sweeps; grow/balanced/phased fill-drain profiles) on 2-D grids of side 2..12 and 3-D grids of side 2..5. "
            "destroy: seven empty-tree destruction scenarios, each in a forked child. "
            "Entry points: insertion through insert(pt,v) and emplace(pt) (value 0; every insert/emplace choice enumerated "
            "in the exh insert phase, mixed elsewhere), erasure through erase(pt,v), erase_advance in sweeps and "
            "erase_advance on the iterator returned by insert; iteration with ++it, `it++;`, the value of `*it++`, "
            "range-for, and both `it != end` / `!(it == end())` tests (sweeps: every mask x 3 increment forms for <=4 "
            "points). "
            "After EVERY operation: structural walk through private members (parent/child back pointers, child.dim == "
            "(parent.dim+1)%D, strict < on every `before` descendant and >= on every `after_or_equal` descendant, "
            "reachable count == node_count, reachable multiset == model) and size(); on every state not seen earlier in "
            "the enumeration: full iteration, at/exists(pt) for every grid point (+4 off-grid points), within/exists(lo,hi) "
            "for all 36 proper half-open boxes over the grid + 6 empty/inverted/out-of-grid boxes (every state for <=4 "
            "points, a hashed 1/16 (5 points) / 1/128 (6 points) of the states otherwise), erase() of absent entries. "
            "types (c13_types.cc): the same oracle (one non-template class working on grid indices) behind a thin "
            "per-instantiation adapter, for KDTree<VectorN<S>, V> with S in {int8_t,int16_t,int32_t,int64_t,uint8_t,"
            "uint16_t,uint32_t,uint64_t,float,double}, N in {2,3,4}, V in {int64_t, std::string, Tracked (deep-copying, "
            "non-trivially copyable)} - 26 instantiations chosen so that every scalar occurs with >=2 point types and every "
            "scalar family with every value type - and four placements of the grid inside the scalar's range (low: from "
            "lowest(); mid: around 0 resp. 2^(bits-1); high: up to max(); span: lowest()..centre..max(), so differences of "
            "coordinates wrap / overflow / are not representable).  The grid-index -> coordinate map is strictly "
            "increasing (checked with the scalar's own <), hence the expected answers are those of the index model; the "
            "structural walk compares stored coordinates with the scalar's < and == only.  texh: every (instantiation, "
            "placement) runs all sequences of <=2 (quick) / <=3 (thorough) of 9 points (3x3 grid in axes 0,1; further axes "
            "functions of (x,y)), every longer sequence up to 4 points runs under one combination (rotating with sequence "
            "index and seed; quick: once over the three groups, thorough: once in each group), each with every erase order "
            "and every erase_advance visit mask.  "
            "trnd: 300-op random histories, instantiation x placement rotating with the history index.  Query points / "
            "boxes with a coordinate the scalar cannot represent are skipped (counted).  Groups 0-2 are compiled -O0 with "
            "assert() live, group 3 (control int64, uint32 3-D with strings, double with Tracked) with -O2 -DNDEBUG; the "
            "NDEBUG state is the coverage class types:build:*.  Violation keys of this part carry ':coord=<scalar family>'. "
            "distinct_nontrivial = distinct (operation, dimension, shape of the deleted/inserted node: leaf / only-before / "
            "only-after / both children x tie on the split axis x root/inner; query outcome kind; grid side) classes.",
    "level_text": "Exploration of a stated finite scope with an inline oracle: exhaustive for short histories on the 3x3 "
                  "grid (where every tie/duplicate pattern of up to 6 points occurs), seeded random beyond. The verdict "
                  "covers exactly the executions run; a defect needing more than 6 points on a 3-valued axis AND not hit by "
                  "the 300-op random histories would be missed.",
    "stages": [
        # compiles every binary of this check concurrently (KDTree is header-only: all of them are rebuilt whenever
        # /repo/src changes); the stages below then find their binary in the cache.  No oracle in it.
        {"kind": "py", "name": "c13-prebuild", "func": "c13:prebuild"},
        {"name": "c13", "variant": "asan", "shards": (1, 1), "args": ["only=destroy"], "tag": "c13-destroy"},
        {"name": "c13", "variant": "asan", "shards": (16, 16), "args": ["only=exh"], "tag": "c13-exh"},
        # 6-point sequences: 9^6 x 720 erase orders = 3.8e8 histories cost ~14000 CPU-s under ASan and ~1800 CPU-s with
        # the -O2 UBSan-only build (measured on 1/2000 slices), so this stage uses ubsan2.  Memory monitors (ASan/LSan)
        # are on for everything up to 5 points and for rnd.  (`permsample=N` would run only 1/N of the erase orders of
        # every sequence, selected by (order index + 31*sequence index + seed) % N == 0; not used.)
        {"name": "c13", "variant": "ubsan2", "shards": (16, 16), "args": ["only=exh", "kmin=6", "k=6"],
         "tag": "c13-exh6", "tiers": ["thorough"]},
        {"name": "c13", "variant": "asan", "shards": (16, 16), "args": ["only=rnd"], "tag": "c13-rnd"},
        # type matrix (c13_types.cc): three groups of instantiations, -O0 (cheap to compile; assert() live).
        # no_mirror: these stages are build-configuration variants themselves (-O0 / -O2 -DNDEBUG), the driver's generic
        # release mirror of them would only add compiles.
        # optional_build: a tree on which some instantiation no longer compiles is reported by the driver as
        # inconclusive unless another stage finds a violation.
        {"name": "c13_types_g0", "sources": ["c13_types.cc"], "variant": "asan", "shards": (16, 16), "tag": "c13-types-signed",
         "extra_cxx": ["-O0", "-DC13_GROUP=0"], "link_lib": False, "optional_build": True, "no_mirror": True},
        {"name": "c13_types_g1", "sources": ["c13_types.cc"], "variant": "asan", "shards": (16, 16), "tag": "c13-types-unsigned",
         "extra_cxx": ["-O0", "-DC13_GROUP=1"], "link_lib": False, "optional_build": True, "no_mirror": True},
        {"name": "c13_types_g2", "sources": ["c13_types.cc"], "variant": "asan", "shards": (16, 16), "tag": "c13-types-float",
         "extra_cxx": ["-O0", "-DC13_GROUP=2"], "link_lib": False, "optional_build": True, "no_mirror": True},
        # release flags: what a CMAKE_BUILD_TYPE=Release user of the header compiles (assert() bodies vanish)
        {"name": "c13_types_rel", "sources": ["c13_types.cc"], "variant": "asan", "shards": (16, 16), "tag": "c13-types-ndebug",
         "extra_cxx": ["-O2", "-DNDEBUG", "-g1", "-DC13_GROUP=3"], "args": ["kb=3", "nh=48"], "link_lib": False,
         "optional_build": True, "no_mirror": True},
    ],
    "min_evaluations": 1000000,
    "min_classes": {"quick": 80, "thorough": 80},
    "required_classes": [
        "erase:2d:both:tie:root", "erase:2d:only-before:tie:*", "erase:2d:only-before:notie:*", "erase:2d:only-after:tie:*",
        "erase:2d:leaf:*", "erase:2d:absent:*", "erase:3d:both:tie:*", "erase:3d:only-before:*",
        "erase_advance:2d:both:tie:*", "erase_advance:2d:only-before:tie:*", "erase_advance:2d:leaf:*", "erase_advance:3d:*",
        "insert:2d:root:*", "insert:2d:before:*", "insert:2d:after:tie", "insert:2d:after:duplicate-point", "insert:3d:*",
        "sweep:2d:erase-all", "sweep:2d:erase-some", "sweep:2d:erase-none", "sweep:3d:erase-some",
        "at:hit", "at:hit-duplicate-point", "at:miss", "within:result-some", "within:result-all", "within:result-empty",
        "within:empty-tree:*", "exists-box:true", "exists-box:false", "erase:absent-value-sweep",
        "insert:2d:via-emplace", "insert:3d:via-emplace", "erase:2d:via-iterator-returned-by-insert",
        "iterate-form:pre-increment", "iterate-form:range-for", "iterate-form:post-increment-value",
        "iterate-form:post-increment-statement", "sweep-form:pre-increment", "sweep-form:post-increment-statement",
        "sweep-form:post-increment-value",
        "destroy:2d:non-empty", "destroy:3d:non-empty", "destroy:empty:forked-scenario",
        "rnd:2d:side2", "rnd:2d:side12", "rnd:3d:side*",
        # type matrix: every scalar in both parts, every point type, every value type, every family x placement,
        # both assert states
        "types:cfg:exh:*<int8_t>*", "types:cfg:exh:*<int16_t>*", "types:cfg:exh:*<int32_t>*", "types:cfg:exh:*<int64_t>*",
        "types:cfg:exh:*<uint8_t>*", "types:cfg:exh:*<uint16_t>*", "types:cfg:exh:*<uint32_t>*", "types:cfg:exh:*<uint64_t>*",
        "types:cfg:exh:*<float>*", "types:cfg:exh:*<double>*",
        "types:cfg:rnd:*<int8_t>*", "types:cfg:rnd:*<int16_t>*", "types:cfg:rnd:*<int32_t>*", "types:cfg:rnd:*<int64_t>*",
        "types:cfg:rnd:*<uint8_t>*", "types:cfg:rnd:*<uint16_t>*", "types:cfg:rnd:*<uint32_t>*", "types:cfg:rnd:*<uint64_t>*",
        "types:cfg:rnd:*<float>*", "types:cfg:rnd:*<double>*",
        "types:cfg:exh:Vector3<*", "types:cfg:exh:Vector4<*", "types:cfg:rnd:Vector3<*", "types:cfg:rnd:Vector4<*",
        "types:value:int64_t:*", "types:value:std::string:2d", "types:value:std::string:3d", "types:value:Tracked:2d",
        "types:value:Tracked:4d",
        "types:place:sint-narrow:low", "types:place:sint-narrow:mid", "types:place:sint-narrow:high", "types:place:sint-narrow:span",
        "types:place:sint-wide:low", "types:place:sint-wide:mid", "types:place:sint-wide:high", "types:place:sint-wide:span",
        "types:place:uint-narrow:low", "types:place:uint-narrow:mid", "types:place:uint-narrow:high", "types:place:uint-narrow:span",
        "types:place:uint-wide:low", "types:place:uint-wide:mid", "types:place:uint-wide:high", "types:place:uint-wide:span",
        "types:place:float:low", "types:place:float:mid", "types:place:float:high", "types:place:float:span",
        "types:build:assert-enabled", "types:build:ndebug",
        "types:erase:2d:both:tie", "types:erase:3d:both:*", "types:erase:4d:both:*", "types:erase:2d:only-before:*",
        "types:erase_advance:2d:both:*", "types:erase_advance:4d:*", "types:insert:4d:before:*", "types:insert:via-emplace",
        "types:erase:via-iterator-returned-by-insert", "types:at:hit-duplicate-point", "types:within:result-some",
        "types:exists-box:true", "types:exists-box:false", "types:erase:absent-value-sweep",
        "types:destroy:non-empty", "types:destroy:emptied", "types:sweep:erase-some",
    ],
    "exhaustive": {"quick": False, "thorough": False},
    "exhaustive_note": "Enumerated completely: quick - all 7381 insertion sequences of 0..4 points of the 3x3 grid x all "
                       "erase orders (162,009 histories with distinct values) x all 2^k erase_advance visit masks x all "
                       "erase-order prefixes for destruction; thorough - the same for 0..5 points (66,430 sequences, 7,247,889 "
                       "erase-order histories with distinct values; asan). 6 points: all 531,441 sequences x all 720 erase orders "
                       "(382,637,520 histories) x all 64 erase_advance masks (34,012,224 sweeps); -O2 UBSan build, no ASan. Type matrix: for each of the 26 instantiations x 4 placements all "
                       "91 (quick) / 820 (thorough) sequences of <=2 / <=3 of the 9 points x all erase orders x all visit masks; "
                       "the 729 3-point sequences (quick) and the 6561 4-point sequences are each enumerated completely but every "
                       "sequence under one instantiation x placement only. Random histories are sampled, hence exhaustive=false overall.",
    "assumptions": ASSUME_COMMON + [
        "private members are reached with `#define private public` around the single KDTree.hh include (header-only "
        "template; every std header it uses is included before); no phosg source is modified",
        "within() on an EMPTY tree may throw out_of_range or return {} (both accepted); emplace() instantiates only "
        "with zero value arguments (emplace(pt) adds (pt, 0)) and is exercised in that form; at(pt) may return the value of any entry stored at pt",
        "a state reached by an operation prefix identical to one already checked earlier in the enumeration is not "
        "re-observed for 5- and 6-point sequences (KDTree is deterministic); return value and size() are still checked",
        "if a forked probe shows that ~KDTree() on an empty tree crashes, the exh/rnd parts release empty trees without "
        "running the destructor (the crash itself is reported by the destroy stage under key destroy:empty-tree)",
        "6-point exhaustive stage runs without ASan/LSan (UBSan + model + structural walk only)",
        "type matrix: coordinates are finite and never -0.0 / NaN / infinite (the statement does not say how such "
        "coordinates compare); a query whose point or box corner is not representable in the coordinate scalar is not "
        "asked; whether all value objects are destroyed with the tree is recorded as a class, not judged (LSan judges leaks)",
        "type matrix instantiations that do not compile against a tree make the run inconclusive (optional_build), not violated",
    ],
}
