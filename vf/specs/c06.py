"""C06 — image codecs: save/load identity, valid output files, truncation rejected safely."""
from ..props_common import ASSUME_COMMON

SPEC = {
    "level": "fault_enumeration",
    "technique": "Python-owned pixel arrays and container writers/decoders around the real Image load/save under "
                 "ASan+UBSan+LSan; every prefix length of every file is loaded",
    "rule": "dimensions enumerated: all (w,h) in [1,8]^2, w in 9..64 x h in {1,2,3} (every residue of w mod 4), tall 1..3-wide "
            "strips, 64x64; contents gradient/zero/max/random/every-byte-value; input containers written by the Python side: "
            "P6, P5, P7 RGB/RGB_ALPHA/GRAYSCALE/GRAYSCALE_ALPHA (maxval 255, 65535 and width-boundary maxvals; colour also "
            "2^32-1, 2^64-1), header whitespace/line-order styles, BMP 24/32-bit BI_RGB and BI_BITFIELDS with all 24 byte-mask "
            "permutations, header sizes 40/52/56/108/124, bottom-up/top-down, gap before pixel data; phosg-saved PPM (all "
            "channel widths), BMP and PNG (8-bit) decoded by independent Python decoders and loaded back; a sample of the images "
            "is first routed through every way an Image object can come to hold them (copy/move ctor, copy/move assignment onto "
            "default-constructed and differently formatted images, raw-data constructors, load, set_channel_width/set_has_alpha) "
            "and must then save the same bytes / round-trip exactly. Encoded-size ladder: sizes that only emerge after "
            "encoding are steered onto every 2^k and 3*2^k (exactly and +-1 where reachable): the deflated IDAT payload "
            "and the total length of saved PNGs (number of incompressible raster bytes steered by measuring the real writer's "
            "output; 64x64 and smaller images, RGB/RGBA, three raster recipes; payload also onto every multiple of 1 KiB "
            "up to 16 KiB), the total length of every input family's files (dimensions x header style, BMP: gap) and of "
            "saved PPM/BMP files and the raw PNG raster (dimensions). Fault enumeration: "
            "every prefix length 0..len-1 of every generated or saved file <= 4224 bytes. "
            "distinct_nontrivial = distinct (operation, container family, channel width/alpha, stream kind, w mod 4) classes.",
    "level_text": "Fault enumeration: the fault model (truncation at any byte) is enumerated completely for every file of the "
                  "workload; the file workload itself is a finite enumeration of dimensions crossed with rotating (quick) or "
                  "crossed (thorough) container variants and seeded pixel contents.",
    "stages": [
        {"kind": "py", "name": "c06", "func": "c06:stage"},
        {"kind": "py", "name": "c06-memcheck", "func": "c06:stage_memcheck", "tiers": ["thorough"]},
    ],
    "min_evaluations": 500000,
    "min_classes": {"quick": 150, "thorough": 150},
    "required_classes": [
        "load:p6:cw8:*", "load:p6:cw16:*", "load:p6:cw32:*", "load:p6:cw64:*",
        "load:p7-rgb:*", "load:p7-rgba:cw8a:*", "load:p7-rgba:cw64a:*",
        "load:p5:cw8:*", "load:p5:cw16:*", "load:p7-gray:cw8:*", "load:p7-gray:cw16:*",
        "load:p7-graya:cw8a:*", "load:p7-graya:cw16a:*",
        "load:bmp24:*:mem:w%4=1", "load:bmp24:*:mem:w%4=2", "load:bmp24:*:mem:w%4=3", "load:bmp24:*:mem:w%4=0",
        "load:bmp32:*", "load:bmp32bf:*",
        "trunc:p6:*", "trunc:p5:*", "trunc:p7-rgba:*", "trunc:p7-graya:*", "trunc:bmp24:*:mem", "trunc:bmp24:file",
        "trunc:bmp32:*", "trunc:bmp32bf:*", "trunc:saved-ppm:*", "trunc:saved-bmp:*",
        "trunc-exc:*",
        "save:png:cw8:*", "save:png:cw8a:*", "save:bmp:cw8:w%4=1", "save:bmp:cw8:w%4=2", "save:bmp:cw8:w%4=3",
        "save:bmp:cw8a:*", "save:ppm:cw8:*", "save:ppm:cw16a:*", "save:ppm:cw32:*", "save:ppm:cw64a:*",
        "roundtrip:saved-ppm:cw64a:*", "roundtrip:saved-ppm:cw16:*", "roundtrip:saved-bmp:cw8:*", "roundtrip:saved-bmp:cw8a:*",
        # delivery channels: a real pipe for every family, real files through fdopen/fopen/both path constructors
        "load:p6:pipe", "load:p5:pipe", "load:p7-rgb:pipe", "load:p7-rgba:pipe", "load:p7-gray:pipe", "load:p7-graya:pipe",
        "load:bmp24:pipe:w%4=0", "load:bmp24:pipe:w%4=1", "load:bmp24:pipe:w%4=2", "load:bmp24:pipe:w%4=3",
        "load:bmp32:pipe", "load:bmp32bf:pipe", "roundtrip:saved-bmp:pipe:w%4=1", "roundtrip:saved-ppm:pipe",
        "load:bmp24:file", "load:bmp24:fopen", "load:bmp24:path", "load:bmp24:pathstr", "load:bmp32bf:path",
        "load:p6:path", "load:p6:pathstr", "load:p5:fopen", "roundtrip:saved-ppm:path", "roundtrip:saved-bmp:pathstr",
        "trunc:bmp24:pipe", "trunc:bmp32bf:pipe", "trunc:p6:pipe", "trunc:bmp24:path", "trunc:bmp24:pathstr", "trunc:bmp24:fopen",
        "trunc:saved-bmp:pipe",
        "save-writer:ppm:FILE*", "save-writer:bmp:const char* filename", "save-writer:png:const std::string& filename",
        # object histories before saving
        "history:copy-ctor:cw8", "history:copy-ctor:cw64", "history:copy-assign:cw8", "history:copy-assign:cw16",
        "history:copy-assign:cw32", "history:copy-assign:cw64", "history:move-ctor:cw16", "history:move-assign:cw8",
        "history:move-assign:cw32", "history:raw-load:cw8", "history:raw-load:cw64", "history:loaded:cw8", "history:loaded:cw16",
        "history:convert:cw8", "history:convert:cw16", "history:convert:cw32", "history:convert:cw64",
        # encoded-size ladder: the IDAT payload of a saved PNG hit every 2^k / 3*2^k from 2^8 to 2^14 exactly (judge's own
        # measurement of the bytes the real writer produced), and one byte to either side of the chunk-size-like ones
        "png-idat-size:256:=", "png-idat-size:384:=", "png-idat-size:512:=", "png-idat-size:768:=", "png-idat-size:1024:=",
        "png-idat-size:1536:=", "png-idat-size:2048:=", "png-idat-size:3072:=", "png-idat-size:4096:=", "png-idat-size:6144:=",
        "png-idat-size:8192:=", "png-idat-size:12288:=", "png-idat-size:16384:=",
        "png-idat-size:4096:-1", "png-idat-size:4096:+1", "png-idat-size:8192:-1", "png-idat-size:8192:+1",
        "png-idat-size:16384:-1", "png-idat-size:16384:+1",
        "png-file-size:4096", "png-file-size:8192", "png-file-size:16384",
        "save:png:ladder:cw8:*", "save:png:ladder:cw8a:*", "oracle-selftest:png-decoder",
        "file-size:ppm-input:4096", "file-size:ppm-input:8192", "file-size:bmp-input:4096", "file-size:bmp-input:8192",
        "file-size:saved-ppm:4096", "file-size:saved-ppm:8192", "file-size:png-raster:4096",
    ],
    "exhaustive": {"quick": False, "thorough": False},
    "exhaustive_note": "complete: every truncation point of every file <= 4 KiB (+128 bytes) in the workload; all 24 BI_BITFIELDS byte-mask "
                       "permutations x 3 header sizes x 2 row orders x 2 gaps; all (w,h) in [1,8]^2 and every w in 1..64 for "
                       "each family. Not complete: pixel contents (seeded), the cross product variants x dimensions (rotated).",
    "assumptions": ASSUME_COMMON + [
        "delivery channels: fmemopen() buffers, real ftruncate()d files (fdopen, fopen, path constructors) and real pipes; "
        "sockets, FIFOs and stdin itself are not exercised",
        "hostile (non-truncation) malformed headers are outside the fault model (e.g. BMP header_size < 4, zero or negative sizes)",
        "16/32/64-bit PPM samples use phosg's host-order convention on both sides; only 8-bit PPM output is checked against the "
        "Netpbm definition; grayscale with maxval > 65535 (outside Netpbm) is executed for memory safety only",
        "Netpbm comment lines and CR/VT/FF as the final header separator are not generated (phosg documents neither)",
        "encoded-size ladder: a target size counts as covered only when the judge measured it on bytes the real writer produced; "
        "saved BMP lengths are always 2 mod 4, so they cross the boundaries (nearest size on either side) but never hit them",
    ],
}
