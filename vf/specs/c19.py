"""C19 — unit-test expectation helpers are a sound and complete oracle."""
from ..props_common import ASSUME_COMMON

SPEC = {
    "level": "exploration",
    "technique": "runtime monitoring: every expect_* macro and the complete expect_raises<E>(fn) matrix executed under "
                 "ASan/UBSan/LSan, outcome (throws / what it throws / file, line, message carried) compared with a "
                 "rank-table truth and an explicit exception-hierarchy table",
    "rule": "relations {eq, ne, gt, ge, lt, le} x all operand pairs over boundary sets of int, unsigned, int64_t, uint64_t, "
            "std::string (incl. embedded NUL, equal strings in different buffers), double (-inf, -0.0, 0.0, DBL_MIN, inf, NaN), "
            "char, bool; expect(pred) for bool and pointer predicates; expect_msg with five texts; expect_raises matrix: "
            "E in {std::exception, logic_error, invalid_argument, out_of_range, runtime_error, range_error, bad_alloc, "
            "expectation_failed, JSON::parse_error, user type deriving from runtime_error} x fn in {returns, throws each of "
            "the ten, throws int, throws a non-std::exception class} = 130 cells x three call flavours; every cell repeated "
            "(60x quick, 1000x thorough). Operand-shape cells: each relation macro x {first, second} operand written as an "
            "unparenthesised expression of 22 shapes (ternary with constant/variable arms, |, &, ^, &&, ||, ==, !=, <, >=, <<, "
            "+, -, *, %, unary -, !, ~, cast, call) over 18 variable assignments x 6 values of the other operand, truth from "
            "the explicitly parenthesised value. Call contexts: every cell of every part rotates through direct / inside a "
            "catch handler of an unrelated exception / destructor on normal scope exit / destructor during stack unwinding "
            "of an unrelated exception (failure caught inside the destructor) / second thread started from an unwinding "
            "destructor; verdict, file, line, message, what() must equal the direct context's. errno is poisoned before "
            "every call. Call sites on lines 999..2147483000 (#line) under a digit-grouping global locale: what() must contain file, message and the plain decimal line. Operands with side effects (counter call, x++, --x, counting functor, invoked lambda, StringReader::get_u8) as first/second operand of every macro: evaluated exactly once, verdict from that evaluation. expect/expect_msg with 55 non-bool predicates (fractions, denormals, NaN, __int128 and 64-bit values with zero low bits, pointers, enums, implicit-bool class). Carried values (TU c19_carry, optional build): runtime messages of 0, 1, 2, 2^k-1, 2^k, 2^k+1 (k = 4..16), 2^20, 2^20+1 characters in four byte patterns (exact compare, exactly sized heap block); stringified messages of exactly those lengths for every relation macro and expect() through preprocessor-generated operands (integer sums up to 2^10, string literals above; long operand first / second); file names of those lengths with directory components and ten names of unusual shape, line numbers 1, 9, 10, 99, 100, 255, 256, 32767, 32768, 65535, 65536, 2^31-1 (#line), each row holding all eight macros and five failure paths of expect_raises; every failing call observed in 13 ways (caught object, copy, copy outliving the original, move, assignment, logic_error& / exception& + dynamic_cast, rethrow, exception_ptr here and from an exited thread, nested, make_exception_ptr, sliced): msg / file compared as full C strings, line as a number, what() must contain file, decimal line and message. TOTAL what() length (c19_carry): with file and line fixed the constant what().size() - message length is measured from two reference calls, then the message length is chosen so that the whole what() text has every length in 900..1100 (thorough: up to 4400), 2^k-3..2^k+3 for k <= 16 and the 49 shortest possible lengths (four byte patterns on the 2^k+-1 rungs, one rotating elsewhere), seen through the caught object, a std::exception& and a sliced logic_error copy; the what() of the foreign exception quoted by the wrong-type failure of expect_raises walks 0..40, 800..1100 and 2^k+-3, also shifted so that the failure's own what() sits on 2^k+-3 (judged: verdict, file, line, what() contains file and line; the wording around the quotation is counted only). PRIOR HISTORIES (c19 and c19_carry): for each of the ~280 entries of the shared catalogue of earlier unrelated uses of phosg's helpers (harness/vf_history.hh: one string_printf output of every length 0..132 and 2^k+-3 up to 64 Ki / 1 Mi, runs of 5000 short outputs, join/split/fgets ladders, escapers, formatters, hash hex) plus a seeded sample of two-step histories: fresh thread -> prior -> mini-workload (c19: 72 relation cells over int/string/double with NaN, expect, expect_msg with four texts, the sixteen big-line call sites, a 4 x 7 expect_raises sub-matrix with every outcome kind; c19_carry: all site kinds + expect_msg texts whose what() is exactly as long as the prior's output -1/+0/+1, the shortest possible, 255..257, 1023..1025, 4097), judged by the same judges as the main parts. Second TU (optional build): expect_raises with E in {plain struct, derived plain struct, std::string, int, type with ambiguous std::exception base, virtual-base and diamond types, exception, runtime_error, logic_error} x fn in {returns, throws each of ten exotic/standard types}, is-a from an explicit table cross-checked against real catch clauses. distinct_nontrivial = distinct (relation, operand type, order shape, expected "
            "outcome) and (E, behaviour of fn, expected outcome) cells observed.",
    "level_text": "The input space of the statement is finite once the operand sets and the exception hierarchy are fixed, and "
                  "it is enumerated completely: every relation x operand-pair cell and all 130 expect_raises cells are "
                  "executed against the real macros and the real library code with memory monitors on. Operand types or "
                  "exception hierarchies outside the listed ones (e.g. virtual/multiple inheritance, exceptions thrown from "
                  "destructors) are not explored. Dependence of the carried texts on their TOTAL formatted length and on what the calling thread did earlier with the shared "
                  "formatting helpers is sampled, not enumerated: every total what() length 900..1100 and around every power of two up to 2^16, and every entry of the "
                  "prior catalogue once per run; a dependence on a length or history outside those ladders could be missed.",
    "stages": [
        # The -Wno-* flags silence, for this TU only, the diagnostics that unparenthesised operand shapes can trigger when a
        # header forgets to parenthesise a macro parameter: the broken header must compile to a wrong verdict, not to a
        # build failure (= inconclusive).
        # -O0 for the harness translation unit only (the library stays -O1): the ~1500 macro call sites x ASan/UBSan
        # instrumentation take 23 CPU-s to compile at -O1 and 7 s at -O0; run time is irrelevant here.
        {"name": "c19", "variant": "asan", "shards": (16, 16), "timeout": (600, 3600), "extra_cxx": ["-O0", "-Wno-parentheses", "-Wno-int-in-bool-context", "-Wno-bool-compare", "-Wno-bool-operation",
                       "-Wno-unused-value"]},
        # Expected types outside the std::exception tree / unusual inheritance, in their own TU.  optional_build: if a
        # header change makes one of these instantiations ill-formed the stage is skipped (and the run is inconclusive
        # unless another stage reports a violation) instead of taking the main stage down with a build error.
        {"name": "c19_exotic", "variant": "asan", "shards": (8, 16), "timeout": (600, 3600), "extra_cxx": ["-O0"],
         "optional_build": True},
        # E = int alone: a header that requires E to be a class type breaks only this one.
        {"name": "c19_exotic_int", "sources": ["c19_exotic.cc"], "variant": "asan", "shards": (2, 4), "timeout": (600, 3600),
         "extra_cxx": ["-O0", "-DC19_EXOTIC_INT"], "optional_build": True},
        # pointer-kind predicates of expect()/expect_msg(): same reason, own optional stage
        {"name": "c19_exotic_ptrpred", "sources": ["c19_exotic.cc"], "variant": "asan", "shards": (2, 4), "timeout": (600, 3600),
         "extra_cxx": ["-O0", "-DC19_EXOTIC_PTRPRED", "-Wno-unused-function"], "optional_build": True},
        # what the failure CARRIES over length / magnitude ladders (message 0 .. 2^16+1 and 1 MiB, file name 2^4-1 .. 2^16+1,
        # line 1 .. 2^31-1) and through the life of the exception object (copy, move, assign, exception_ptr, nested, base-class
        # references).  Reads expectation_failed::msg / ::file through an overload set, so it also builds if those become
        # std::string; optional_build for any other change of the class layout.
        {"name": "c19_carry", "variant": "asan", "shards": (8, 16), "timeout": (600, 3600), "extra_cxx": ["-O0"],
         "optional_build": True},
    ],
    "min_evaluations": 50000,
    "min_classes": {"quick": 780, "thorough": 780},
    "required_classes": [
        "rel:eq:int:*", "rel:ge:int:equal:holds", "rel:ge:int:less:fails", "rel:gt:int:equal:fails", "rel:le:double:unordered:fails",
        "rel:ne:double:unordered:holds", "rel:lt:string:less:holds", "rel:eq:string:equal:holds", "rel:le:uint64:greater:fails",
        "rel:expect:bool:fails", "rel:expect:bool:holds", "rel:expect_msg:format-chars:fails", "rel:expect_msg:empty-text:fails",
        "raises:exception:returns:must-fail", "raises:logic_error:returns:must-fail", "raises:expectation_failed:returns:must-fail",
        "raises:runtime_error:returns:must-fail", "raises:exception:throws-int:must-fail", "raises:runtime_error:throws-non-std-class:must-fail",
        "raises:runtime_error:throws-user_runtime_error:must-pass", "raises:exception:throws-bad_alloc:must-pass",
        "raises:logic_error:throws-expectation_failed:must-pass", "raises:runtime_error:throws-expectation_failed:must-fail",
        "raises:JSON.parse_error:throws-runtime_error:must-fail", "raises:user_runtime_error:throws-user_runtime_error:must-pass",
        "shape:ternary_const_arms:second:fails", "shape:ternary_var_arms:second:fails", "shape:ternary_var_arms:second:holds",
        "shape:ternary_var_arms:first:fails", "shape:bit_or:second:fails", "shape:bit_and:second:holds", "shape:bit_xor:second:fails",
        "shape:logical_and:second:holds", "shape:logical_and:second:fails", "shape:logical_or:second:fails", "shape:equality:second:fails",
        "shape:relational_lt:second:fails", "shape:additive:second:fails", "shape:unary_minus:first:fails", "shape:call:second:holds",
        "shape-rel:eq:second", "shape-rel:lt:second", "shape-rel:ge:first",
        "ctx:direct:relation:fails", "ctx:catch-handler:relation:fails", "ctx:dtor-normal-exit:relation:fails",
        "ctx:dtor-unwinding:relation:fails", "ctx:dtor-unwinding:relation:holds", "ctx:thread-during-unwinding:relation:fails",
        "ctx:direct:expect_raises:must-fail", "ctx:catch-handler:expect_raises:must-fail", "ctx:dtor-normal-exit:expect_raises:must-fail",
        "ctx:dtor-unwinding:expect_raises:must-fail", "ctx:dtor-unwinding:expect_raises:must-pass",
        "ctx:thread-during-unwinding:expect_raises:must-fail",
        "bigline:expect_eq:line>=1000:fails", "bigline:expect_ge:line>=1000:fails", "bigline:expect_ne:line>=1e6:fails",
        "bigline:expect_msg:line>=1e6:fails", "bigline:expect_raises:line>=1000:fails", "bigline:expect_raises:line>=1e9:fails",
        "bigline:expect_raises:line>=1e9:holds", "bigline:expect:line<1000:fails",
        "side:counter_call:first:fails", "side:counter_call:second:fails", "side:post_increment:first:holds", "side:pre_decrement:second:fails",
        "side:counting_functor:first:fails", "side:invoked_lambda:second:fails", "side:reader_get_u8:first:fails", "side:reader_get_u8:second:holds",
        "side-macro:expect_eq:first", "side-macro:expect_lt:second", "side-macro:expect:first", "side-macro:expect_msg:second",
        "pred:double:truthy", "pred:double:falsy", "pred:float:truthy", "pred:long-double:truthy", "pred:int128:truthy", "pred:int128:falsy",
        "pred:uint64:truthy", "pred:pointer:truthy", "pred:pointer:falsy", "pred:enum:truthy", "pred:function-pointer:truthy", "pred:c-string:truthy", "pred:c-string:falsy",
        "pred:implicit-bool-class:falsy",
        "raises-exotic:plain-struct:must-pass", "raises-exotic:plain-struct:must-fail", "raises-exotic:derived-plain-struct:must-pass",
        "raises-exotic:std.string:must-pass", "raises-exotic:ambiguous-std-base:must-pass", "raises-exotic:runtime_error:must-pass",
        "raises-exotic:exception:either", "raises-exotic:virtual-std-base:must-pass", "raises-exotic:diamond-virtual-std-base:must-pass",
        "raises-exotic:int:must-pass", "raises-exotic:int:must-fail", "raises-exotic-fn:throws-ambiguous-std-base",
        "raises-exotic-fn:throws-const-char-ptr", "raises-exotic-fn:returns", "ctx-exotic:dtor-unwinding:must-pass",
        # c19_carry: ladders of what the failure carries
        "carry:rtmsg:len=0", "carry:rtmsg:len=2^4-1", "carry:rtmsg:len=2^8-1", "carry:rtmsg:len=2^8", "carry:rtmsg:len=2^8+1", "carry:rtmsg:len=2^12",
        "carry:rtmsg:len=2^16-1", "carry:rtmsg:len=2^16", "carry:rtmsg:len=2^16+1", "carry:rtmsg:len=2^20", "carry:rtmsg:len=2^20+1",
        "carry:rtmsg:pattern:printf-directives", "carry:rtmsg:pattern:high-bytes", "carry:rtmsg:pattern:control-chars",
        "carry:strmsg:expect_eq:2^4:on-boundary", "carry:strmsg:expect_eq:2^8:on-boundary", "carry:strmsg:expect_eq:2^16:on-boundary",
        "carry:strmsg:expect_ne:2^8:on-boundary", "carry:strmsg:expect_gt:2^9:on-boundary", "carry:strmsg:expect_ge:2^8:on-boundary",
        "carry:strmsg:expect_ge:2^16:on-boundary", "carry:strmsg:expect_lt:2^10:on-boundary", "carry:strmsg:expect_le:2^8:on-boundary",
        "carry:strmsg:expect_le:2^15:on-boundary", "carry:strmsg:expect:2^8:on-boundary", "carry:strmsg:expect:2^16:on-boundary",
        "carry:strmsg:long-first", "carry:strmsg:long-second", "carry:strmsg:long-predicate",
        "carry:file:len=2^4:on-boundary", "carry:file:len=2^8:on-boundary", "carry:file:len=2^12:on-boundary", "carry:file:len=2^16:on-boundary",
        "carry:file:with-directories", "carry:file:name_printf_directives", "carry:file:name_empty", "carry:file:name_trailing_slash",
        "carry:file:name_1024_components", "carry:line:1", "carry:line:255", "carry:line:256", "carry:line:32768", "carry:line:65535", "carry:line:65536",
        "carry:line:2147483647", "carry:site:expect_eq:file>=256", "carry:site:expect_le:line>=65536", "carry:site:expect:file>=256",
        "carry:site:expect_msg:file>=256", "carry:site:expect_raises:returns:file>=256", "carry:site:expect_raises:wrong-std-type:file>=256",
        "carry:site:expect_raises:non-class-object:line>=65536", "carry:site:expect_raises-exception:returns:file>=256",
        "carry:site:expect_raises-exception:non-std-class:file>=256", "carry:site:expect_raises:passes",
        "carry:history:copy", "carry:history:copy-outlives-original", "carry:history:moved", "carry:history:assigned",
        "carry:history:caught-by-logic_error-ref", "carry:history:caught-by-exception-ref", "carry:history:rethrown", "carry:history:exception_ptr",
        "carry:history:exception_ptr-other-thread", "carry:history:nested", "carry:history:make_exception_ptr", "carry:history:sliced-to-logic_error",
        "carry:ctx:dtor-unwinding", "carry:ctx:thread-during-unwinding",
        # total what() length swept densely (every value 900..1100, 2^k +- 3), foreign what() of the wrong-type failure likewise
        "carry:what-total:len=900..909", "carry:what-total:len=1010..1019", "carry:what-total:len=1020..1029", "carry:what-total:len=1090..1099",
        "carry:what-total:len=around-2^6", "carry:what-total:len=around-2^8", "carry:what-total:len=around-2^10", "carry:what-total:len=around-2^12",
        "carry:what-total:len=around-2^16", "carry:what-total:len=other",
        "carry:foreign-what:len=800..899", "carry:foreign-what:len=900..999", "carry:foreign-what:len=1000..1099", "carry:foreign-what:len=around-2^10",
        "carry:foreign-what:len=around-2^16", "carry:foreign-what:total=around-2^10", "carry:foreign-what:total=around-2^16",
        # prior histories (vf_history.hh): mini-workloads on a fresh thread after an earlier unrelated use of the shared helpers
        "carry:prior:none:sites", "carry:prior:printf-len:sites", "carry:prior:printf-len:what-lengths", "carry:prior:printf-run:what-lengths",
        "carry:prior:join:sites", "carry:prior:two-step:what-lengths",
        "prior:none:relations", "prior:printf-len:relations", "prior:printf-len:expect_msg", "prior:printf-len:bigline", "prior:printf-len:expect_raises",
        "prior:printf-run:expect_raises", "prior:join:relations", "prior:fgets:expect_msg", "prior:split:relations", "prior:escape:expect_raises",
        "prior:format:relations", "prior:hash-hex:relations", "prior:two-step:relations", "prior:two-step:expect_raises",
        "prior-raises:must-pass", "prior-raises:must-fail:returns", "prior-raises:must-fail:wrong-type", "prior-raises:must-fail:non-std-object",
    ],
    "exhaustive": {"quick": True, "thorough": True},
    "exhaustive_note": "all relation x operand-pair cells of the stated boundary sets and all 130 (E, behaviour) cells of the "
                       "expect_raises matrix are executed in both tiers; the tiers differ only in repetitions per cell",
    "assumptions": ASSUME_COMMON + [
        "expectation_failed::msg of expect_raises failures is not read (for wrong-type failures it dangles: observation "
        "outside the statement); file, line and what() are",
        "the exception hierarchy is the ten listed types; is-a is an explicit parent table cross-checked at start-up "
        "against real catch clauses",
        "carried values (c19_carry): the message text of the relation macros is demanded layout-free (both stringified operand "
        "texts, left one first); exact equality only for expect_msg; what() must contain file, decimal line and message "
        "anywhere; the ladder call sites sit exactly on the 2^k boundaries only for today's message layout (classes "
        "carry:strmsg:*:on-boundary are named after measured lengths, so a layout change makes the run inconclusive, not wrong); "
        "copy / move / assignment of expectation_failed are exercised only if the class offers them",
    ],
}
