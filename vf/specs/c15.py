"""C15 — subprocess I/O: run_process and Subprocess::communicate complete and deadlock-free."""
from ..props_common import ASSUME_COMMON

WRAPS = ["-Wl,--wrap=waitpid,--wrap=poll,--wrap=read,--wrap=write,--wrap=fork,--wrap=pipe,--wrap=kill"]


def _child_arg(ctx):
    """Builds the scripted child (plain C, no phosg) and hands its path to the harness."""
    from .. import build
    return ["child=" + build.build_c("c15_child")]


SPEC = {
    "level": "fault_enumeration",
    "technique": "real run_process / Subprocess::communicate against a scripted child under enumerated delay plans injected "
                 "at the parent's waitpid/poll/read/write (--wrap), judged by a result/receipt oracle, /proc descriptor and "
                 "zombie conservation monitors and a state-based /proc/<pid>/syscall deadlock witness",
    "rule": "A scenario = (api, child behaviour script, stdin payload size P, output volume V, check flag, timeout/deadline, "
            "delay plan). Enumerated: 14 run_process behaviours (cat, read-all-then-write, write-then-read, exit-before-poll, "
            "slow-reader, close-stdin-early, pause > poll timeout, killed by signal mid-write, huge stderr, no output, closes "
            "stdout early, partial read, 1-byte dribble, interleaved stdout/stderr) and 12 communicate behaviours x "
            "P,V in {0,1,4095,4096,4097,65535,65536,65537,131072,2^20} (quick: a 10-pair Latin diagonal per behaviour; "
            "thorough: all 100 pairs) x {no deadline, deadline} x delay plans drawn from the catalogue "
            "{none, {waitpid,poll,read,write} x call #1..3 x {1 ms, 20 ms, until-the-child-is-zombie-or-blocked}, every call 1 ms, "
            "seeded 2-3 delay plans}; plus targeted exit-vs-poll races, timeouts against silent children (incl. a SIGTERM-ignoring one) and against children whose "
            "poll set is never quiet (ticking stdout/stderr, closed stdout/stderr/stdin then hang), a grandchild that keeps the "
            "child's stdout/stderr write ends open for 2.5 s or until killed (both APIs), 24 calls in "
            "one process (descriptor growth), Subprocess life cycle; delays positioned relative to the run_process deadline "
            "(the first/second waitpid, poll, read or write issued inside a window before the deadline - or right after the child's "
            "last output has been read - is held until deadline + {1 ms, 20 ms}; children: one late burst then silence on stdout / "
            "stderr / after consuming stdin / in two pieces / closing stdout afterwards, silent throughout, chatty, slow reader of a "
            "1 MiB payload; the same around the end of the SIGTERM grace period for SIGTERM-surviving children); children that close "
            "descriptors while they keep running: every ordered subset of {stdin, stdout, stderr} (16) x every placement of the closes "
            "{before, between, after} the reading and writing phases (106 patterns) x phase order x P in {0,1,65536,65537,2^20} x four "
            "ways of ending (exit code, linger then exit, signal, linger > 1 s), through both APIs, plus timeouts against children that "
            "closed both outputs / everything. Each scenario runs in its own forked process. "
            "distinct_nontrivial = distinct (api, behaviour, payload bucket | volume bucket), delay-plan kinds, "
            "check/stdin/timeout combinations and monitor outcomes observed.",
    "level_text": "Every enumerated (behaviour, size pair, plan) scenario is executed against the real code; the delay plans move the "
                  "child-exit vs parent-poll race both ways deliberately (the `settle` delay waits until the child is a zombie or "
                  "blocked, which makes exit-before-first-poll deterministic even on a loaded machine). The enumeration is over this "
                  "finite catalogue, not over all kernel schedules: interleavings inside a single delay-free window are whatever the OS "
                  "produced in this run.",
    "stages": [
        {"name": "c15", "variant": "asan", "shards": (16, 16), "extra_link": WRAPS, "args_fn": _child_arg,
         "timeout": (1500, 7200)},
    ],
    "min_evaluations": 300,
    "min_classes": {"quick": 150, "thorough": 200},
    "required_classes": [
        "run_process:cat:P=1M", "run_process:exit-before-poll:V=~64K", "run_process:close-stdin-early-linger:P=1M",
        "run_process:signal-mid-write:*", "run_process:huge-stderr:V=1M", "run_process:timeout:*",
        "run_process:timeout-sigterm-ignored:*", "run_process_repeat:repeat:*",
        "communicate:no-deadline:cat", "communicate:deadline:cat", "communicate:cat:P=1M", "communicate:deadline-expires:*",
        "lifecycle:*", "run_process:timeout-ticking-stdout:*", "run_process:timeout-closed-stdout-hangs:*",
        "run_process:timeout-closed-stderr-hangs:*", "run_process:timeout-closed-stdin-hangs:*", "run_process:timeout-ticking-sigterm-ignored:*",
        "run_process:lingering-writer-never-closes:*", "run_process:lingering-writer-2.5s:*", "communicate:lingering-writer-2.5s:*",
        "communicate:lingering-writer-never-closes:*", "communicate:closes-stdout-then-lingers:*",
        "communicate:slow-parent:*", "communicate:slow-parent-child-already-exited:*", "communicate:slow-parent-big-output:*",
        "communicate:slow-parent-after-stdin:*", "run_process:slow-parent:*", "slow-parent:judged-child-finished-in-time",
        "plan:waitpid:past-deadline", "plan:poll:past-deadline", "plan:read:past-deadline", "plan:poll:eintr", "plan:waitpid-blocking:eintr*", "plan:signals:sigalrm-storm", "plan:signals:sibling-sigchld",
        "eintr:injected:poll", "eintr:injected:waitpid-blocking", "eintr:observed:poll", "eintr:observed:waitpid-blocking", "plan:none", "plan:waitpid:settle", "plan:poll:settle", "plan:poll:20ms", "plan:read:*", "plan:write:*",
        "deadline-delay:placed:waitpid:deadline:after-output-read", "deadline-delay:placed:waitpid:deadline:time-window",
        "deadline-delay:placed:poll:deadline:*", "deadline-delay:placed:read:deadline:*", "deadline-delay:placed:write:deadline:*",
        "deadline-delay:placed:waitpid:grace-end:*", "run_process:poll-timeouts-requested:*",
        "run_process:timeout-closed-both-outputs-hangs:*", "run_process:timeout-closed-all-hangs:*", "run_process:timeout-closed-both-outputs-reads-slowly:*",
        "closes:run_process:both-outputs-closed-before-reading:P=1M", "closes:run_process:both-outputs-closed-before-reading:P=~64K",
        "closes:communicate:both-outputs-closed-before-reading:P=1M", "closes:order:out>err", "closes:order:err>out", "closes:order:err>out>in",
        "closes:when:before,between,after", "closes:end:2", "closes:end:3", "run_process:closes-both-outputs:P=1M", "run_process:closes-stdout:*",
        "communicate:closes-both-outputs:P=1M", "communicate:closes-all:*",
        "run_process:check=1:*", "run_process:check=0:stdin=nullptr:*", "monitor:witness-selftest:deadlock-detected",
        "monitor:reaped:ECHILD", "monitor:fds:conserved*", "communicate:stderr=pipe", "communicate:stderr=devnull",
    ],
    "exhaustive": {"quick": False, "thorough": False},
    "exhaustive_note": "thorough tier: the full 10x10 (payload, volume) grid for every behaviour of both APIs; the delay-plan "
                       "catalogue (38 single-delay plans) is covered across scenarios, not per scenario",
    "assumptions": ASSUME_COMMON + [
        "Linux /proc/<pid>/{syscall,stat,wchan,fd,io} readable for own descendants (checked in this VM)",
        "EINTR is injected only where a signal can really interrupt the parent: poll() and waitpid() without WNOHANG; read/write on the "
        "O_NONBLOCK pipes of run_process, communicate's read/write right after poll reported readiness, and waitpid(WNOHANG) never block "
        "and therefore never fail with EINTR (probe with --arg eintr=all, keys prefixed probe-unrealistic-eintr:, not verdicts)",
        "SIGPIPE is ignored in the harness (any pipe-using program must), so EPIPE is an error return",
        "run_process' last argument is taken in microseconds (the implementation's name; the header calls it timeout_secs)",
        "communicate never reads stderr, so a child filling a stderr pipe is outside its contract: the child's stderr is a pipe only when the script writes <= 16 KiB there, else /dev/null",
        "hang witnesses are state-based (100 consecutive /proc samples): child blocked on a pipe to the parent while the parent is blocked "
        "or looping without moving a byte; child a zombie while the parent sits in one call without a timeout; parent has sat through "
        "timeout+20 s of its own poll timeouts with the child alive; a run_process timeout is pending, its deadline passed > 5 s ago "
        "without a signal (or the first signal > 10 s ago without SIGKILL) and the parent sits in ONE call that cannot return on its own "
        "(poll with a negative timeout, wait4 without WNOHANG) while the child is alive and no byte moves. A hang without a witness is "
        "inconclusive, never a violation",
        "deadline-relative delays use the 5 s SIGTERM->SIGKILL grace of the implementation only to *position* a delay, never as a verdict; "
        "the timeouts poll() is asked for while a run_process timeout is pending are recorded and counted, not judged",
        "communicate's 'deadline' variant uses 60 s; a call that really takes longer (overloaded machine) is counted, not judged",
    ],
}
