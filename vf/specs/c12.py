"""C12 — LRUSet / LRUMap equal a reference recency list on every operation history."""
from ..props_common import ASSUME_COMMON

# -DC12_OPT=<level> only labels the coverage class `build:<assert-on|assert-off>:<level>:<asan|nosan>`; whether NDEBUG is
# defined, whether the optimiser ran and whether ASan instruments the TU is observed by the harness itself.
_COMMON = {"name": "c12", "variant": "asan", "shards": (16, 16), "link_lib": False, "extra_cxx": ["-O2", "-DC12_OPT=O2"]}


def _st(tag, only, **kw):
    d = dict(_COMMON)
    d.update({"tag": tag, "args": ["only=" + only]})
    d.update(kw)
    return d


# Build configurations of the header-only templates (round 5).  The SAME harness TU is compiled again with the flag sets
# a user's build system passes to the including TU; `extra_cxx` is part of the harness binary's cache key (vf/build.py), so
# each flag set is a different binary.  Same histories, same model, same audit; scopes per tier in _cfg_args.
#   c12-ndebug-O2   g++ -O2 -DNDEBUG + ASan/UBSan   (assert() bodies discarded; CMake RelWithDebInfo flags, monitors on)
#   c12-release-O3  g++ -O3 -DNDEBUG, no sanitizer  (exactly what a CMake Release build of a user's TU executes)
#   c12-debug-O0    g++ -O0, asserts on, no sanitizer (CMake Debug)
_ALL_PARTS = "only=fixed,exset,exmap,bigsz,closet,closmap,random"


def _cfg_args(quick, thorough):
    return lambda ctx: list(quick if ctx["tier"] == "quick" else thorough)


_CFG_STAGES = [
    dict(_COMMON, tag="c12-ndebug-O2", no_mirror=True, extra_cxx=["-O2", "-DNDEBUG", "-DC12_OPT=O2"],
         args_fn=_cfg_args([_ALL_PARTS, "full_len=3", "map_len=3", "big_len=2", "random_div=2"],
                           [_ALL_PARTS, "full_len=4", "map_len=4", "big_len=3", "random_div=4"])),
    dict(_COMMON, tag="c12-release-O3", variant="plain", extra_cxx=["-O3", "-DNDEBUG", "-DC12_OPT=O3"],
         args_fn=_cfg_args([_ALL_PARTS, "full_len=4", "map_len=3", "big_len=2", "random_div=2"],
                           [_ALL_PARTS, "full_len=4", "map_len=4", "big_len=3", "random_div=2"])),
    dict(_COMMON, tag="c12-debug-O0", variant="plain", extra_cxx=["-O0", "-DC12_OPT=O0"],
         args_fn=_cfg_args(["only=fixed,exset,exmap,bigsz,random", "full_len=3", "map_len=3", "big_len=2", "random_div=4"],
                           [_ALL_PARTS, "full_len=4", "map_len=3", "big_len=3", "random_div=4"])),
]


_SET_KINDS = ["insert", "emplace", "erase", "touch", "touch_sz", "change_size", "evict", "peek", "swap", "clear",
              "insert_defsize", "emplace_defsize", "final-drain"]
_MAP_KINDS = ["insert", "emplace", "erase", "touch", "touch_sz", "change_size", "change_size_notouch", "change_size_touch", "at",
              "item_size", "evict", "swap", "clear", "insert_defsize", "emplace_defsize", "final-drain"]
_BUILDS = ["assert-on:O2:asan", "assert-off:O2:asan", "assert-off:O3:nosan", "assert-on:O0:nosan"]
# every build configuration must have been observed by its own binary, and must have executed every operation kind
_BUILD_CLASSES = ["build:" + b for b in _BUILDS] + \
                 ["build:%s:lruset:%s" % (b, k) for b in _BUILDS for k in _SET_KINDS] + \
                 ["build:%s:lrumap:%s" % (b, k) for b in _BUILDS for k in _MAP_KINDS]

SPEC = {
    # The driver's generic release mirror (variant asanrel = -O2 -DNDEBUG on a seed-rotated quarter of each stage's shards,
    # coverage not counted) is switched off for C12: the build-configuration stages below run the NDEBUG configuration on
    # ALL shards, with their own required coverage classes, plus the sanitizer-free -O3 and -O0 configurations.
    "no_mirror": True,
    "level": "exploration",
    "technique": "model-based runtime monitoring: inline recency-list model + structural audit of the intrusive list "
                 "after every operation, under ASan/UBSan/LSan",
    "rule": "(1) every history of length 1..4 (LRUSet thorough: 1..5) over the full alphabet (LRUSet 46 ops, LRUMap 60 ops: "
            "insert/emplace/touch/change_size x 3 keys x sizes {0,1,2}, erase/touch/at/item_size x 3 keys, evict, peek, swap "
            "of two instances, clear); (2) thorough: LRUMap length-5 histories over the full alphabet in which every non-final "
            "step changes the abstract state, and every history of length 6..7 (LRUMap 5..7) over a reduced 15-op alphabet; "
            "(2b) every history of length 1..3 over 2 keys x every size-taking entry point x sizes {0, 1, 2^31, 2^32, 2^63-1, "
            "2^63, 2^63+7, SIZE_MAX-1, SIZE_MAX}; (3) transition closure: every full-alphabet operation from each of the 226x226 abstract state pairs of the two "
            "instances; (4) seeded random histories of 1..400 ops over 1..8 heap-owning std::string keys (std::string and "
            "unique_ptr values). Each history starts from two fresh instances, is audited after every operation and ends in a "
            "drain by evict_object. evaluations = operations checked (+1 per drain). distinct_nontrivial = distinct "
            "(container, operation kind, pre-state shape of the target) classes, shape in {absent-empty, absent, only, head, "
            "middle, tail} for keyed ops, {empty, one, many} for evict/peek/clear/drain and the 9 size pairs for swap. "
            "(5) build configurations: the containers are header-only templates compiled with the including TU's flags, so the "
            "same harness TU is compiled four times -- -O2 with assert() active + ASan/UBSan (all parts above), -O2 -DNDEBUG + "
            "ASan/UBSan, -O3 -DNDEBUG without sanitizer (CMake Release), -O0 without sanitizer (CMake Debug) -- and parts "
            "(1) [quick: length <= 3, thorough: <= 4], (2b), (3), (4) run again from each binary with the same model and "
            "audit; classes build:<assert-on|assert-off>:<O-level>:<asan|nosan>[:<container>:<operation kind>] record what each "
            "configuration really executed (NDEBUG state is observed by the binary, not taken from the spec).",
    "level_text": "Small-scope exhaustive enumeration plus seeded random exploration of the real containers built with "
                  "ASan+UBSan. Inside the stated scope (3 keys, sizes {0,1,2}, two instances, the listed lengths) every "
                  "operation history is executed and compared step by step with a reference recency list, and the "
                  "intrusive list's structural invariants are re-derived from head/tail/prev/next after every step, so a "
                  "mis-linked pointer is reported at the operation that creates it. The closure part executes every "
                  "operation from every abstract state pair, which extends the result to histories of any length over "
                  "3 keys under the assumption that behaviour depends only on the audited state. More keys, other key/value "
                  "types and longer literal histories are only sampled.",
    "stages": [
        # compiles every harness binary of this tier concurrently (they are then cache hits for the stages below)
        {"kind": "py", "name": "c12-build", "tag": "c12-build", "func": "c12:prebuild"},
        _st("c12-fixed", "fixed", shards=(2, 2)),
        _st("c12-exset", "exset"),
        _st("c12-exmap", "exmap"),
        _st("c12-exmap5", "exmap5", tiers=["thorough"]),
        _st("c12-redset", "redset", tiers=["thorough"]),
        _st("c12-redmap", "redmap", tiers=["thorough"]),
        _st("c12-bigsz", "bigsz"),
        _st("c12-closet", "closet"),
        _st("c12-closmap", "closmap"),
        _st("c12-random", "random"),
    ] + _CFG_STAGES,
    "min_evaluations": 1000000,
    "min_classes": {"quick": 270, "thorough": 270},
    "required_classes": [
        "lruset:insert:absent-empty", "lruset:insert:head", "lruset:insert:middle", "lruset:insert:tail",
        "lruset:emplace:head", "lruset:emplace:tail", "lruset:emplace_defsize:*", "lruset:insert_defsize:*",
        "lruset:erase:only", "lruset:erase:head", "lruset:erase:middle", "lruset:erase:tail", "lruset:erase:absent",
        "lruset:touch:only", "lruset:touch:head", "lruset:touch:middle", "lruset:touch:tail", "lruset:touch_sz:tail",
        "lruset:change_size:head", "lruset:change_size:tail", "lruset:change_size:absent",
        "lruset:evict:empty", "lruset:evict:one", "lruset:evict:many", "lruset:peek:empty", "lruset:peek:many",
        "lruset:swap:empty-empty", "lruset:swap:many-empty", "lruset:swap:empty-many", "lruset:swap:many-many",
        "lruset:clear:many", "lruset:final-drain:many",
        "lrumap:insert:absent-empty", "lrumap:insert:head", "lrumap:insert:middle", "lrumap:insert:tail",
        "lrumap:emplace:absent", "lrumap:emplace:head", "lrumap:emplace:middle", "lrumap:emplace:tail",
        "lrumap:emplace_defsize:*", "lrumap:insert_defsize:*",
        "lrumap:erase:only", "lrumap:erase:head", "lrumap:erase:middle", "lrumap:erase:tail",
        "lrumap:touch:head", "lrumap:touch:middle", "lrumap:touch:tail", "lrumap:touch_sz:tail",
        "lrumap:change_size:tail", "lrumap:change_size_notouch:tail", "lrumap:change_size_touch:*",
        "lrumap:at:absent", "lrumap:at:head", "lrumap:at:middle", "lrumap:at:tail", "lrumap:item_size:tail",
        "lrumap:item_size:absent", "lrumap:evict:empty", "lrumap:evict:one", "lrumap:evict:many",
        "lrumap:swap:empty-empty", "lrumap:swap:many-empty", "lrumap:swap:empty-many", "lrumap:swap:many-many",
        "lrumap:clear:many", "lrumap:final-drain:many",
        "lruset:insert:size>=2^63", "lruset:emplace:size>=2^63", "lruset:change_size:size>=2^63", "lruset:touch_sz:size>=2^63",
        "lrumap:insert:size>=2^63", "lrumap:emplace:size>=2^63", "lrumap:change_size:size>=2^63",
        "lrumap:change_size_touch:size>=2^63", "lrumap:change_size_notouch:size>=2^63", "lrumap:touch_sz:size>=2^63",
    ] + _BUILD_CLASSES,
    "exhaustive": {"quick": False, "thorough": False},
    "exhaustive_note": "enumerated completely: all histories of length <= 4 over the full 46-op (LRUSet<int>) and 60-op "
                       "(LRUMap<int,int64>) alphabets (thorough: LRUSet <= 5; LRUMap length 5 stutter-free only), thorough: all "
                       "histories of length 6..7 (LRUMap 5..7) over the reduced 15-op alphabets, and all 51076 x |alphabet| "
                       "transitions of the abstract state graph; the random part is sampled, hence exhaustive=false for the "
                       "check as a whole",
    "assumptions": ASSUME_COMMON + [
        "LRUMap::insert(const K&, const V&, size_t) and LRUMap::at(const K&) const do not instantiate (compile errors) "
        "and are therefore never executed; the rvalue insert overload and the non-const at() are used instead",
        "the recency contract is taken from the comments in LRUSet-inl.hh/LRUMap.hh as pinned by LRUSetTest/LRUMapTest: "
        "LRUSet::change_size, LRUMap::item_size, LRUMap::change_size(..,false) and LRUMap::emplace on an existing key "
        "do not refresh recency; every other successful keyed operation does",
        "exhaustive parts use int keys / int64 values (stale key pointers are caught by the back-pointer audit); "
        "heap-owning std::string keys and std::string / unique_ptr values are used in the random part only",
        "sizes are size_t: the model's size arithmetic is modulo 2^64; boundary sizes (2^31, 2^32, 2^63-1, 2^63, 2^63+7, "
        "SIZE_MAX-1, SIZE_MAX) go through every size-taking entry point. touch(k, ssize_t new_size) is modelled from its "
        "header signature: a negative value (i.e. any size >= 2^63 converted to ssize_t) means 'keep the size'",
        "build configurations: the property is decided for g++ 12 with NDEBUG defined and not defined and for -O0, -O2, -O3 "
        "(violation keys found in a binary compiled with NDEBUG carry the prefix 'ndebug:'; the witness text names the "
        "configuration). Other compilers, -Os, LTO and user-defined macros that the headers do not mention are not varied",
        "LRUSet::after_emplace computes ssize_t(size) - ssize_t(old size); for sizes >= 2^63 that is a signed overflow "
        "(recorded under ub_observations, not a verdict by the framework's UBSan policy); the stored value is still checked",
    ],
}
