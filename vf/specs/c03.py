"""C03 — endian-explicit scalars act as native values stored in the named byte order."""
from ..props_common import ASSUME_COMMON

_WRAPPERS = [p + "_" + t for p in ("re", "le", "be")
             for t in ("uint16_t", "int16_t", "uint32_t", "int32_t", "uint64_t", "int64_t", "float", "double")]

SPEC = {
    "level": "exploration",
    "technique": "runtime monitoring with the native scalar type as reference model and an independent shift/mask byte encoder",
    "rule": "All 24 wrapper types (re/le/be x u/s16, u/s32, u/s64, float, double). Per value: ctor, =, converted_endian::operator=, "
            "store/load, store_raw/load_raw, copy, prefix/postfix ++/-- (object at an odd address inside a canary buffer); per "
            "(operator, operand) pair: += -= *= /= %= &= |= ^= <<= >>= with three operand types each; every case compares the value "
            "returned by the expression, the value stored and the raw object bytes with the native type (operands filtered so the "
            "native expression is defined; floats by bit pattern, NaN payloads of arithmetic results not compared). Enumerated "
            "completely: bswap8/16, sign_extend from 8/16-bit sources, all 2^16 values of the six 16-bit wrappers, bswap24/bswap24s/"
            "ext24 over 2^24; thorough tier also every 32-bit pattern through bswap32/bswap32f/sign_extend and ctor/raw/++/-- of the "
            "nine 32-bit wrappers. 48/64-bit: every single-lane pattern b<<8k and complement, all pairs of lanes, 2^k, 2^k+-1, "
            "boundary cross products and seeded boundary-biased random values. distinct_nontrivial = distinct (wrapper, operation) "
            "and (helper, workload) classes, e.g. be_int32_t:<<=, re_double:pre++, ext48:lanes. Round 4 (part chain): for every wrapper and operator "
            "the static result type/value category (compound and plain assignment: lvalue designating the object; prefix ++/--: the "
            "exposed type; postfix: prvalue of the exposed type - decided by type traits at run time, never a build failure), "
            "chained use of the result as an lvalue ((w op1= a) op2= b and auto&& r = (w op1= a); r op2= b over all 10x10 / 4x4 "
            "operator pairs) against the same chain on the native type, and every operator result consumed as __int128 / long double "
            "without narrowing first (all 2^16 values of the 16-bit wrappers through ++/--, boundary + seeded values otherwise). Round 5 (part "
            "optypes): every compound operator with right operands of type int, unsigned, long, unsigned long (size_t/uint64_t), long long, "
            "unsigned long long, uint8_t, int8_t, uint16_t, float, double and the wrappers be_uint16_t, le_int64_t, re_uint32_t, le_double "
            "(where the native expression is well-formed and defined), plus the complete shift matrix: 14 left operands of both signs x every "
            "count 0..width(promoted T)-1 x every integral count type x <<=/>>=; reference = the native expression with the same operand types.",
    "level_text": "Exhaustive on the 8/16/24-bit spaces (and on all 2^32 patterns in the thorough tier); dense boundary-biased sampling, "
                  "not symbolic reasoning, on 48/64-bit values and on operator/operand pairs: a defect confined to a 64-bit value "
                  "without lane or boundary structure would be missed.",
    "stages": [
        # header-only code under test: nothing from libphosg.a is needed
        {"name": "c03", "variant": "asan", "shards": (16, 16), "link_lib": False, "extra_cxx": ["-fno-var-tracking"]},
        # every 32-bit pattern; -O2 UBSan-only build that contains nothing but that part
        {"name": "c03", "tag": "c03-exh32", "variant": "ubsan2", "shards": (16, 16), "args": ["only=exh32"], "link_lib": False,
         "extra_cxx": ["-DC03_EXH32_ONLY", "-fno-var-tracking"], "tiers": ["thorough"]},
    ],
    "min_evaluations": 20000000,
    "min_classes": {"quick": 380, "thorough": 380},
    "required_classes": (
        ["%s:store-load" % w for w in _WRAPPERS] + ["%s:raw" % w for w in _WRAPPERS] + ["%s:sizeof" % w for w in _WRAPPERS]
        + ["%s:%s" % (w, op) for w in _WRAPPERS for op in ("pre++", "pre--", "post++", "post--", "+=", "-=", "[*]=", "/=")]
        + ["%s:%s" % (w, op) for w in _WRAPPERS if not w.endswith(("float", "double"))
           for op in ("%=", "&=", "|=", "^=", "<<=", ">>=")]
        + ["%s:chain:%s" % (w, op) for w in _WRAPPERS for op in ("+=", "-=", "[*]=", "/=")]
        + ["%s:chain:%s" % (w, op) for w in _WRAPPERS if not w.endswith(("float", "double"))
           for op in ("%=", "&=", "|=", "^=", "<<=", ">>=")]
        + ["%s:wide:%s" % (w, op) for w in _WRAPPERS for op in ("pre++", "pre--", "post++", "post--", "=")]
        + ["%s:operand:%s" % (t, r) for t in ("uint16_t", "int16_t", "uint32_t", "int32_t", "uint64_t", "int64_t", "float", "double")
           for r in ("int", "unsigned", "long", "unsigned long", "long long", "unsigned long long", "uint8_t", "int8_t", "uint16_t",
                     "float", "double", "be_uint16_t", "le_int64_t", "re_uint32_t", "le_double")]
        + ["%s:shift-matrix:%s" % (t, r) for t in ("uint16_t", "int16_t", "uint32_t", "int32_t", "uint64_t", "int64_t")
           for r in ("int", "unsigned", "long", "unsigned long", "long long", "unsigned long long", "uint8_t", "int8_t", "uint16_t",
                     "be_uint16_t", "le_int64_t", "re_uint32_t")]
        + ["bswap8:exhaustive", "bswap16:exhaustive", "bswap24:exhaustive", "bswap24s:exhaustive", "ext24:exhaustive",
           "bswap32:lanes", "bswap32f:lanes", "bswap48:lanes", "bswap48s:lanes", "ext48:lanes", "bswap64:lanes", "bswap64f:lanes",
           "bswap64:sampled", "ext48:sampled", "sign_extend:uint8_t->int16_t", "sign_extend:int16_t->uint64_t",
           "sign_extend:uint32_t->int64_t", "sign_extend:int32_t->uint64_t"]
    ),
    "exhaustive": {"quick": False, "thorough": False},
    "exhaustive_note": "complete sub-spaces: bswap8/bswap16/sign_extend(8,16-bit sources) all values; 16-bit wrappers all 65536 values "
                       "(layout, store/load, raw, ++/--); bswap24/bswap24s/ext24 all 2^24; thorough: all 2^32 patterns for bswap32, "
                       "bswap32f, sign_extend(32-bit sources) and ctor/store_raw/++/-- of the nine 32-bit wrappers. 48/64-bit values "
                       "and binary operand pairs are sampled (boundary cross product + seeded random).",
    "assumptions": ASSUME_COMMON + [
        "C++20 semantics for the native reference: modular narrowing conversions, shifts defined for every left operand when "
        "0 <= count < width of the promoted type",
        "NaN payloads produced by floating arithmetic are not compared (only NaN-ness); moves and stores are compared bit-exactly",
        "out-of-domain inputs (high bits set) of bswap24/bswap48 are judged on the low 24/48 result bits only",
    ],
}
