"""C10 — hash functions equal their published definitions and chain correctly."""
from ..oracles import c10 as _oracle
from ..props_common import ASSUME_COMMON

SPEC = {
    "level": "exploration",
    "technique": "runtime monitoring: real MD5/SHA1/SHA256/crc32/fnv1a code under ASan+UBSan, judged against "
                 "hashlib / zlib.crc32 / the published FNV-1a recurrence computed in Python",
    "rule": "vf/oracles/c10.py writes the inputs and the expected values (hashlib.md5/sha1/sha256, zlib.crc32, 3-line FNV-1a "
            "recurrence); harness/c10.cc runs phosg on each input in an exact-size heap block (alignment 0..3) and compares: "
            ".bin() and .hex() (case-insensitive) of MD5/SHA1/SHA256 for the (ptr,size) and std::string overloads, crc32, "
            "fnv1a32/64 (both overloads), and chaining f(suffix, seed=f(prefix)) == expected f(whole) for crc32/fnv1a32/fnv1a64. "
            "Inputs: every length 0..300 x fills {00, FF, counter, PRNG} with EVERY split point 0..len; thorough adds lengths "
            "301..1100 x 4 fills; 200 (quick) / 5000 (thorough) random inputs of length 64k+d, d in -9..+1, up to exactly 1 MiB, "
            "with <=8 sampled split points each (0, len, a block boundary, len-1, random). Dense length sweep: every length 301..5000 (stride 1, random data) in addition to 0..300 x 4 fills. "
            "Alignment sweep: the inputs of length 0..80 (4 fills) at every pointer offset 0..15 of a 16-byte aligned block, flush "
            "against the end of an exact-size block and with 16 spare bytes behind, ladder sizes <= 64 KiB at 6 offsets, for all six "
            "(ptr,size) entry points. Digest-shape-directed inputs: bounded search (8M quick / 40M thorough MD5 candidates per run, "
            "nothing cached) for inputs whose MD5 is entirely text bytes / has quotes or backslashes at the ends, plus two fixed "
            "vectors (MD5 and SHA-1 digests that are entirely text). Early-call probe: every function called once from a static "
            "initializer of the harness TU (crc32 running value computed early, chained in main), compared in main with the oracle. "
            "Length ladder: every size 2^k+d (k=9..20) and 3*2^k+d (k=8..18), d in -2..+2 (above 64 KiB -1..+1 in the quick tier), "
            "plus 1 MiB+1 and 1 MiB+2, random data, all functions and sampled splits. Chains with an EMPTY piece: the piece is "
            "passed as (nullptr,0), (valid pointer,0) or empty std::string, at the start / middle / end of prefix+suffix, started from "
            "the default value and from a non-default running value (expected: zlib.crc32(x, v) / recurrence started at v), at every "
            "split of one fill per length and at 3 splits of the others. Concurrency stages: 8 threads per process (4 asan + 2 tsan "
            "processes), barrier start, each thread hashes its own inputs (lengths 0..130, 183..193, 247..257, 311..321, random to 64 KiB) "
            "for 150/1000 (asan) or 10/60 (tsan) rounds with all six functions and compares with the oracle's values. "
            "Prior-history part (main stage): the catalogue of harness/vf_history.hh (~280 unrelated earlier uses of phosg's shared "
            "helpers: string_printf of every length 0..132 and around powers of two, long runs of short outputs, join/split/fgets "
            "ladders, escapers, formatters, hash hex) is spread over the 16 shards; for every prior and each of the three digest "
            "orders a FRESH thread runs the prior and then 2 of 18 pool inputs (lengths at the padding/block boundaries .. 20000; "
            "values from hashlib/zlib/recurrence) through MD5/SHA1/SHA256 hex()+bin() (both overloads, hex() repeated), crc32, "
            "fnv1a32/64 (both overloads), the seeded forms and chaining pairs; plus 2 (quick) / 8 (thorough) two-step histories per "
            "shard and order. Keys <fn>:<hex|bin|value|chain>:after-prior:<family>. "
            "distinct_nontrivial = distinct (len mod 64, block-count bucket) digest classes + input kind/fill/alignment + "
            "random-length offset classes + chaining (mode, cut position, size) classes.",
    "level_text": "Every message length 0..300 (all padding cases of the 64-byte block functions: 55/56/63/64/119/120...) is run "
                  "for four fill patterns and compared bit-for-bit with independent implementations, every split point of those "
                  "inputs is used for the seeded incremental forms, and seeded random inputs up to 1 MiB exercise multi-block "
                  "carry-over. Exhaustive over the stated length range, sampled over contents; a content-dependent defect that "
                  "none of ~1400 (quick) / ~9400 (thorough) inputs triggers would be missed.",
    "stages": [
        {"name": "c10", "variant": "asan", "shards": (_oracle.NSHARDS, _oracle.NSHARDS), "args_fn": _oracle.make_cases,
         "timeout": (600, 3600)},
        # concurrency: 8 threads per process hash their own inputs at the same time; values vs the oracle (asan) and races (tsan)
        {"name": "c10", "variant": "asan", "tag": "c10-mt", "shards": (_oracle.MT_SHARDS, _oracle.MT_SHARDS), "args": ["mode=mt"],
         "args_fn": _oracle.make_cases_mt, "class_prefix": "mt:", "timeout": (600, 3600)},
        {"name": "c10", "variant": "tsan", "tag": "c10-mt-tsan", "shards": (_oracle.MT_TSAN_SHARDS, _oracle.MT_TSAN_SHARDS),
         "args": ["mode=mt", "tsan=1"], "args_fn": _oracle.make_cases_mt_tsan, "class_prefix": "tsan:", "timeout": (600, 3600)},
    ],
    "min_evaluations": 500000,
    "min_classes": {"quick": 150, "thorough": 250},
    "required_classes": ["digest:mod64=0:*", "digest:mod64=55:*", "digest:mod64=56:*", "digest:mod64=63:*",
                         "digest:mod64=55:5+-full-blocks", "digest:mod64=56:5+-full-blocks", "digest:mod64=0:5+-full-blocks",
                         "chain:every-split:inner:len<=300", "chain:every-split:empty-prefix:*", "chain:every-split:empty-suffix:*",
                         "chain:sampled-split:inner:len>=64K", "random:size:=1MiB", "random:len=64k-9", "random:len=64k+1",
                         "input:enumerated:zero:*", "input:enumerated:ff:*", "input:enumerated:counter:*", "input:enumerated:prng:*",
                         "ladder:size:4K-16K", "ladder:size:16K-64K", "ladder:size:64K-1M", "ladder:size:=1MiB", "ladder:size:>1MiB",
                         "ladder:offset-1", "ladder:offset+0", "ladder:offset+1",
                         "early-call:all-functions-before-main", "mt:early-call:*", "tsan:early-call:*",
                         "digest-shape:md5:all-text*", "digest-shape:sha1:all-text*", "digest-shape:md5:has-quote-or-backslash",
                         "alignment:offset1:flush-at-end:len<=80", "alignment:offset15:flush-at-end:len<=80",
                         "alignment:offset7:inside-block:len<=80", "alignment:offset9:flush-at-end:large",
                         "dense:len%64=0", "dense:len%64=55", "dense:len%64=56", "dense:len%64=63",
                         "chain:empty-piece:nullptr:start:*", "chain:empty-piece:nullptr:middle:running-value",
                         "chain:empty-piece:nullptr:end:running-value", "chain:empty-piece:valid-pointer:middle:*",
                         "chain:empty-piece:empty-string:start:default-start", "chain:empty-piece:empty-string:end:running-value",
                         "after-prior:none:first=*", "after-prior:printf-len:first=md5", "after-prior:printf-len:first=sha1",
                         "after-prior:printf-len:first=sha256", "after-prior:printf-run:first=*", "after-prior:join:first=*",
                         "after-prior:split:first=*", "after-prior:fgets:first=*", "after-prior:escape:first=*",
                         "after-prior:format:first=*", "after-prior:hash-hex:first=*", "after-prior:two-step:first=*",
                         "seeded:value:*", "mt:concurrent:8threads:*:mod64=55:*", "mt:concurrent:8threads:*:mod64=56:*",
                         "mt:concurrent:8threads:*:mod64=0:multi", "tsan:concurrent:8threads:*:mod64=55:*"],
    "exhaustive": {"quick": False, "thorough": False},
    "exhaustive_note": "lengths 0..300 x 4 fills and all 181,804 split points of those inputs are enumerated completely in both "
                       "tiers; contents and the large inputs are sampled",
    "assumptions": ASSUME_COMMON + [
        "Python hashlib (OpenSSL), zlib.crc32 and the FNV-1a recurrence in vf/oracles/c10.py are correct (self-tested against "
        "published vectors at the start of every run)",
        "hex() is compared case-insensitively (phosg prints upper case; the statement fixes the digest, not the letter case)",
        "an empty piece of a chain may be passed as (nullptr, 0): the seeded functions must then return the running value unchanged "
        "(HashTest itself calls crc32/fnv1a32/fnv1a64(nullptr, 0))",
        "prior-history: the earlier uses are those of the shared catalogue harness/vf_history.hh (one or two per fresh thread); "
        "state that needs a longer or different history on the same thread is not reached",
        "concurrency: the hash functions are pure functions of their arguments; the schedules seen are those the OS produced for "
        "8 free-running threads per process (no controlled scheduler), TSan reports races on the executions it saw",
    ],
}
