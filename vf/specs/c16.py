"""C16 — parallel_range: exactly-once visits and a true hit reported under all schedules."""
from ..props_common import ASSUME_COMMON

SPEC = {
    "level": "exploration",
    "technique": "controlled-scheduler interleaving enumeration (DFS + PCT/random) of the real templates with an "
                 "exactly-once / hit-set event-log checker; free-running ThreadSanitizer stress",
    "rule": "An execution = one real run of parallel_range / parallel_range_blocks / parallel_range_blocks_multi on real "
            "threads whose atomic operations are serialized by a token-passing scheduler. DFS with prefix replay enumerates "
            "every interleaving for 1-3 threads x ranges 0..4 x every truth assignment x block sizes (configs marked "
            "complete/truncated); PCT/uniform random schedules sample 2-8 threads x ranges <= 64. Offline checker over the "
            "callback event log: exactly-once, in-range, thread_num < num_threads, result in true-set, workers finished at "
            "return. The same laws are checked for plain calls (progress argument omitted: the default stderr progress callback "
            "runs on the calling thread between polls) under a scripted clock whose elapsed / estimated-remaining times sweep every "
            "format range of format_duration, with start 0 / positive / negative-crossing-zero and huge ranges with an early hit. "
            "distinct_nontrivial = distinct (function, int type, threads, range, block, hit-count, complete?) "
            "configuration classes; counters report executions and distinct interleavings (schedule hashes).",
    "level_text": "Every interleaving of the shim's scheduling points (one per atomic operation, sequentially consistent, one "
                  "thread at a time) is enumerated for the tiny configurations listed in exhaustive_note; larger ones are "
                  "sampled; weak-memory behaviour is only exercised by the free-running TSan stress stage.",
    "stages": [
        {"name": "c16", "variant": "asan", "shards": (16, 16), "link_lib": True, "timeout": (1500, 21600)},
        # plain calls (progress argument omitted -> parallel_range_default_progress_fn) under modelled time; start_value == 0
        # and start_value != 0 are separate stages so that a crash in one family cannot hide the other's observations
        {"name": "c16", "variant": "asan", "shards": (8, 16), "link_lib": True, "args": ["only=defprog0"], "tag": "c16-defprog0",
         "timeout": (1500, 21600)},
        {"name": "c16", "variant": "asan", "shards": (8, 16), "link_lib": True, "args": ["only=defprogN"], "tag": "c16-defprogN",
         "timeout": (1500, 21600)},
        {"name": "c16_tsan", "variant": "tsan", "shards": (8, 16), "tag": "c16-tsan", "class_prefix": "tsan:",
         "timeout": (1500, 21600)},
    ],
    "min_evaluations": 20000,
    "min_classes": {"quick": 60, "thorough": 80},
    "required_classes": ["dfs:range:u64:t2:n4:*:complete", "dfs:blocks:u64:t2:*:complete", "dfs:multi:u64:t2:*:complete",
                         "dfs:range:u64:t3:n2:*:complete", "dfs:range:i32:*", "sampled:range:t8:*", "sampled:multi:*",
                         "tsan:stress:range:*", "tsan:stress:blocks:*", "tsan:stress:multi:*", "tsan:stress:narrow:u16:*:over-half-span",
                         "tsan:stress:narrow:u8:*", "tsan:stress:narrow:i16:*", "tsan:stress:*:tdefault:*",
                         "tsan:stress:range:*:over-64K", "dfs:blocks:u64:t0:n0:*", "dfs:multi:u64:t0:*",
                         "tsan:stress:huge-blocks:*", "tsan:stress:2^32-range:default-threads",
                         # the default progress callback really ran, for every function, with zero / positive / negative
                         # start values, and printed durations of every format range with both seconds-field widths
                         "defprog:printed:range:u64:start0", "defprog:printed:blocks:*:start0", "defprog:printed:multi:*:start0",
                         "defprog:printed:range:*:startpos", "defprog:printed:blocks:*:startpos", "defprog:printed:multi:*:startpos",
                         "defprog:printed:range:i64:startneg", "defprog:printed:*:i32:startneg",
                         "defprog:elapsed:subsec", "defprog:elapsed:sec:s1", "defprog:elapsed:sec:s2", "defprog:elapsed:min:s1",
                         "defprog:elapsed:min:s2", "defprog:elapsed:hours:s1", "defprog:elapsed:hours:s2", "defprog:elapsed:days:s1",
                         "defprog:elapsed:days:s2", "defprog:elapsed:huge:*",
                         "defprog:remaining:none", "defprog:remaining:subsec", "defprog:remaining:sec:s1", "defprog:remaining:sec:s2",
                         "defprog:remaining:min:s1", "defprog:remaining:min:s2", "defprog:remaining:hours:s1",
                         "defprog:remaining:hours:s2", "defprog:remaining:days:s1", "defprog:remaining:days:s2",
                         "defprog:remaining:huge:*",
                         "dfs:range:u64:t2:defprog:start0:*", "dfs:range:u64:t2:defprog:startpos:*",
                         "dfs:range:i64:t2:defprog:startneg:*", "dfs:*:u64:t0:defprog:*",
                         "sampled-defprog:range:huge-range:*", "sampled-defprog:blocks:huge-range:*", "sampled-defprog:*:all-defaults"],
    "exhaustive": {"quick": False, "thorough": False},
    "exhaustive_note": "complete DFS (all interleavings of atomic-operation steps) for: 1-2 threads x ranges 0..4 x all 2^n truth "
                       "assignments x {range, blocks bs|n, multi}; 3 threads x ranges 0..2 (quick) / 0..3 (thorough); i32/u8 cursor "
                       "types 2 threads x ranges 0..3; configs hitting the per-config cap are reported as truncated in classes_observed",
    "assumptions": ASSUME_COMMON + [
        "scheduler serializes threads at atomic operations (sequential consistency); weak-memory reorderings are only exercised by the TSan stage",
        "ranges whose end + num_threads*block_size overflows IntT are outside the stated quantifier and not generated",
        "stages c16-defprog0/N run the DEFAULT progress callback (argument omitted); there now() is a scripted monotone clock "
        "(advances per usleep call and per query, never wraps) and the callback's stderr text goes to an in-memory stream; "
        "the text itself is classified for coverage only (the statement does not speak about it); in all other stages the "
        "callback is nullptr or a recording callback",
    ],
}
