"""C07 — canvas operations equal a per-pixel reference model for any arguments."""
from ..props_common import ASSUME_COMMON

SPEC = {
    "level": "exploration",
    "technique": "runtime monitoring: real Image code under ASan/UBSan vs inline per-pixel shadow model, "
                 "padded-canvas clipping invariance, draw_line geometric laws, identities; small scopes exhaustively, long-thin / large canvas ladder for long runs and far offsets",
    "rule": "small scope: fill_rect complete cross product x,y in [-3,size+3] x w,h in [-1,size+3] on canvases {0,1,2,3,5,8}^2 "
            "(both alpha modes, 4 colours; widths 16/32/64 too in the thorough tier); blit family (blit, mask_blit, mask_blit_dst, "
            "mask_blit with mask image, blend_blit x2, custom_blit x2) over x,sx,y,sy in [-3,size+3], w,h in [-1,max+3] on canvases "
            "{0,1,2,3}^4 (thorough: every tuple once, kinds/alpha-mode pairs in rotation, plus self blits; quick: 1/64 random sample); "
            "draw_text formatted lengths 0..40, 120..136, 250..260, 510..516, 1020..1030, 4090..4100 x 4 format variants (%s, %*s, literal%d%s, %-*s|) x 5 overloads, fully visible (wrapped) / tail visible / fully clipped, plus one-call-vs-chunks comparison; "
            "dashed h/v lines: ends in [-3,len+3], row/column in [-1,other], dash in {0,1,2,3,5,-2} on lengths {0,1,2,3,5,8}; draw_line all in-canvas endpoint pairs of 13x11, 1x1, 1x9, 9x1, 4x7 (+16x16, 7x19 thorough) and sampled outside ends; "
            "direct pixel access on every coordinate in [-3,size+3]^2 plus +-2^31, +-2^63; random: canvases to 64x64, "
            "coordinates up to +-2^31, all 8 formats, op sequences of length <= 30 with the shadow carried along, including ACROSS "
            "set_channel_width / set_has_alpha / copy of destination and sources (model channel maximum = 2^width-1 afterwards; exact "
            "per-pixel prediction of widen/narrow/alpha add/drop/mirror/invert) and read_pixel probes; format stage: every format x "
            "every target width on canvases {0,1,2,3,5}^2 (same width = canvas carrying its own MAXVAL != 2^w-1, created by loading a "
            "generated P6/P7 via fmemopen or by the raw-data constructor; also 1/4 of the sequences) followed by invert / alpha toggle / blend_blit / blit-from / mirror. "
            "large stage: canvases W x H and H x W with W in {2^k-1, 2^k, 2^k+1, 3*2^(k-1)}, k = 12..18, H = 1..4 (224 geometries: quick runs each once "
            "with one of the 8 formats, format and shard assignment rotate with the seed; thorough: all 8 formats, twice the requests) plus 'square' canvases "
            "1500x1100, 1100x1500, 1024x700/64-bit (> 2^24 bytes), 2049x513, 513x2049 (thorough also 1450x1500/16a, 700x1024, 2100x2000/8a, 4097x257, 257x4097, 1201x1201); "
            "on each: draw_line on an all-zero canvas judged by the exact-integer line laws (in-canvas: full length with every minor offset, major lengths 2^j-1/2^j/2^j+1/3*2^(j-1)+-1 "
            "for every j that fits, random, near-diagonal on squares, both directions; partially outside: leaving through the far end after a long in-canvas run with end points "
            "up to 2^31-1, leaving through the long side, entering from beyond the near end, both ends outside), then fill_rect / 8 blit kinds (small source, long source, self) / draw_text / "
            "dashed lines (dash up to 65536) / mirrors / invert / resize_blit with coordinates at the far end, across the far edge and around every power of two inside the canvas "
            "(per-pixel model on the whole buffer, 1/4 also padded-canvas invariance; half of the blits and a third of the fills are long runs of more than 3/4 of the canvas length), a width / alpha / copy change with the model carried along, read/write_pixel at far "
            "coordinates and at coordinates that alias into the buffer when cut to 16 / 32 bits or when the row stride is ignored, identities on a rotating subset. "
            "distinct_nontrivial = distinct (operation, clip shape [dst-negative, src-negative, dst-overflow, src-overflow]) and "
            "(operation, channel width, alpha mode, self/other source) classes plus line/text/identity/pixel-access shape classes.",
    "level_text": "Every explored execution of the real drawing code is compared pixel-for-pixel against a shadow model that never "
                  "computes a clipped rectangle, and re-run on a padded canvas (model-free). Small geometric scopes are enumerated "
                  "completely in the thorough tier; larger canvases and huge coordinates are sampled. Long runs, far offsets, row strides and "
                  "pixel indices up to 2^18 per side / 2^20 pixels / 2^24 bytes (2^22 pixels in the thorough tier) are covered by the large-canvas ladder. "
                  "A defect confined to canvases with a side beyond 2^18+1 or more than ~4*10^6 pixels (pixel index >= 2^24), to near-diagonal lines longer than ~2000 steps, "
                  "to coordinates beyond +-2^31, or to tuples not drawn by the quick-tier sample can be missed.",
    "stages": [
        {"name": "c07", "variant": "asan", "shards": (16, 16)},
    ],
    "min_evaluations": 500000,
    "min_classes": {"quick": 250, "thorough": 250},
    "required_classes": [
        "blit:clip:*", "mask_blit:clip:*", "mask_blit_dst:clip:*", "mask_blit_img:clip:*", "blend_blit:clip:*",
        "blend_blit_alpha:clip:*", "custom_blit32:clip:*", "custom_blit64:clip:*", "fill_rect:clip:*",
        "blit:clip:NnOo", "blit:fmt:8:self", "blit:fmt:64", "blit:alpha", "blit:no-alpha", "fill_rect:fmt:64", "draw_text:fmt:64", "draw_text:w64:bg0",
        "draw_text:w8:bgblend", "draw_text:shape:glyphs:nl*", "draw_horizontal_line:fmt:*", "draw_vertical_line:fmt:*", "draw_horizontal_line:inside:dashed", "draw_vertical_line:partly-outside:dashed", "draw_line:incanvas:steep*",
        "draw_line:incanvas:shallow*", "draw_line:incanvas:point*", "draw_line:one-end-outside:*", "draw_line:both-ends-outside:*",
        "reverse_horizontal:fmt:*", "reverse_vertical:fmt:*", "invert:fmt:*", "resize_blit:fmt:*",
        "set_channel_width:8->16", "set_channel_width:64->8", "set_channel_width:16->64", "set_has_alpha:add:w64", "set_has_alpha:drop:w8",
        "set_has_alpha:add:w16", "copy:w16", "copy:w64", "read_probe:16n", "read_probe:64n", "invert:fmt:16", "blend_blit:fmt:32",
        "invert:own-maxval:8", "invert:own-maxval:16", "invert:own-maxval:64", "blend_blit:own-maxval:8", "blit:own-maxval:16",
        "set_has_alpha:add:w8:own-maxval", "set_has_alpha:add:w32:own-maxval", "copy:w16:own-maxval",
        "draw_text:len250-260:var0", "draw_text:len250-260:var1", "draw_text:len4090-4100:var2", "draw_text:len1020-1030:var3",
        "draw_text:len>=250:overload0", "draw_text:len>=250:overload1", "draw_text:len>=250:overload2", "draw_text:len>=250:overload3",
        "draw_text:len>=250:overload4", "draw_text:len>=250:layout0", "draw_text:len>=250:layout1", "draw_text:len>=250:layout2",
        "identity:widen:8->64", "identity:64a:*", "identity:8n:empty", "pixel:oob:read_pixel:*", "pixel:oob:write_pixel32:*",
        "pixel:in:write_pixel:64a", "mask_blit_img:mask-too-small",
        # large-canvas ladder (round 5): a run that skipped a rung, a line family or a far-offset request class is inconclusive
        "large:canvas:k12", "large:canvas:k13", "large:canvas:k14", "large:canvas:k15", "large:canvas:k16", "large:canvas:k17", "large:canvas:k18",
        "large:canvas:wide", "large:canvas:tall", "large:canvas:square", "large:canvas:bytes>2^24", "large:canvas:pixels>2^20",
        "large:canvas:fmt:8n", "large:canvas:fmt:8a", "large:canvas:fmt:16n", "large:canvas:fmt:16a", "large:canvas:fmt:32n", "large:canvas:fmt:32a",
        "large:canvas:fmt:64n", "large:canvas:fmt:64a",
        "large:line:incanvas-run>=2^15", "large:line:incanvas-run>=2^16", "large:line:incanvas-run>=2^17",
        "large:line:incanvas:full-length:wide", "large:line:incanvas:full-length:tall", "large:line:incanvas:pow2-length:wide",
        "large:line:incanvas:pow2-length:tall", "large:line:incanvas:random:wide", "large:line:incanvas:random:tall", "large:line:incanvas:near-diagonal:square",
        "large:line:outside:far-end", "large:line:outside:long-side", "large:line:outside:near-end", "large:line:outside:both",
        "large:offset>=2^15:blit-family", "large:offset>=2^16:blit-family", "large:offset>=2^17:blit-family",
        "large:run>=2^16:blit-family", "large:run>=2^17:blit-family", "large:run>=2^16:fill_rect", "large:run>=2^17:fill_rect",
        "large:offset>=2^16:fill_rect", "large:offset>=2^17:fill_rect", "large:offset>=2^1[567]:draw_text",
        "large:op:blit", "large:op:mask_blit", "large:op:mask_blit_dst", "large:op:mask_blit_img", "large:op:blend_blit", "large:op:blend_blit_alpha",
        "large:op:custom_blit32", "large:op:custom_blit64", "large:op:fill_rect", "large:op:draw_text", "large:op:draw_horizontal_line",
        "large:op:draw_vertical_line", "large:op:reverse_horizontal", "large:op:reverse_vertical", "large:op:invert",
        "large:pixel:inside:wide", "large:pixel:inside:tall", "large:pixel:inside:square", "large:pixel:outside:wide", "large:pixel:outside:tall",
        "large:identity:wide", "large:identity:tall", "large:identity:square",
    ],
    "exhaustive": {"quick": False, "thorough": False},
    "exhaustive_note": "complete: fill_rect cross product on the {0,1,2,3,5,8}^2 grid (8-bit in quick, all widths in thorough); "
                       "draw_line in-canvas endpoint pairs of the listed canvases; pixel access frame [-3,size+3]^2 for all 8 formats; "
                       "thorough only: geometric cross product of the blit family on canvases {0..3}^4 (each tuple with one of 8 kinds "
                       "and one of 4 alpha-mode pairs, rotating). Everything else is seeded sampling.",
    "assumptions": ASSUME_COMMON + [
        "blend arithmetic is demanded only on 8-bit channels (blit/fill_rect formulas are in 8-bit alpha units and the unit-test "
        "reference images pin the wide-channel results); on wider channels only containment, a=0 skip / a=0xFF (or max) copy, "
        "clipping invariance and identities are checked",
        "draw_line and partially-outside dashed lines are held only to 'no pixel off the ideal segment / dash pattern'",
        "mask_blit(mask image) is run with masks at least as large as the source; a mask smaller than the requested area must "
        "raise runtime_error (documented precondition)",
        "resize_blit is monitored for memory safety, exception type (out_of_range/invalid_argument allowed) and containment only",
    ],
}
