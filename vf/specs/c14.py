"""C14 — file/stream reads complete regardless of delivery; directory/unlink/dirname/basename; scoped_fd; Poll."""
from ..props_common import ASSUME_COMMON

_WRAP = ["-Wl,--wrap=read", "-Wl,--wrap=pread", "-Wl,--wrap=pread64", "-Wl,--wrap=close",
         "-Wl,--wrap=write", "-Wl,--wrap=pwrite", "-Wl,--wrap=pwrite64", "-Wl,--wrap=writev",
         "-Wl,--wrap=fstat", "-Wl,--wrap=fstat64", "-Wl,--wrap=stat", "-Wl,--wrap=stat64"]

SPEC = {
    "level": "fault_enumeration",
    "technique": "runtime monitoring with delivery-fault enumeration: read()/pread()/close() are interposed at link time "
                 "(--wrap; libphosg.a is static, so phosg's own calls are routed through the harness) and stdio streams are "
                 "fopencookie streams, so every short-read plan of a bounded family is replayed against the real helpers under "
                 "ASan/UBSan while the harness compares each result with the bytes it delivered itself",
    "rule": "fd level: read_all(fd) under EVERY plan in {1,2,3,F}^8 (the i-th read returns at most c_i bytes, F = unlimited) for "
            "payload lengths 0..12 on a regular file (+ {1,2,3,F}^6/^8 on a pre-loaded pipe), every plan in "
            "{1,16383,16384,16385,F}^5/^6 for payload sizes k*16384+d (k=0..3, d=-2..2), seeded random plans for payloads up to "
            "200 KiB; readx/preadx/read/readx<T>: lengths 0..12 x requested sizes 0..len+2 x first limit {1,2,3,5,F} x every "
            "offset x {file,pipe}. stdio level (fopencookie, 4 buffering modes): read_all(FILE*) under {1,2,3,F}^8 x lengths "
            "0..12, block plans, random plans to 200 KiB; freadx/fread: lengths 0..12 x sizes x {1,2,3,F}^4; fgets: last-line "
            "length 0..1100 x {terminated, unterminated} x 4/8 prefix-line sets x 7 plans (x 4 buffering modes thorough) + random "
            "multi-line files. Real pipes with a writer thread delivering seeded chunk sizes with injected usleep (schedules vary "
            "with VERIF_SEED) into read_all(fd), read_all/fgets/freadx(fdopen), readx. Stream HISTORIES (cursor model): every "
            "sequence of <=4/5 calls from {fgets, freadx(1|7|300), fread(5|5000), fgetcx, read_all} on ONE stream x 7 payload sizes "
            "0..70000 x {fopen on a regular file, fdopen on a loaded pipe, fopencookie with plans} + random histories on live pipes "
            "with a staggered writer: each call must return the next slice of the stream, read_all exactly the rest; descriptor "
            "histories: every sequence of <=4/5 calls from {readx(1), readx(5), read(3), read(100), read_all} on one descriptor x "
            "4 sizes x 5 cyclic plans x {file,pipe}. Concurrency: 160/2400 rounds (asan) of 4-8 threads released by a barrier, each "
            "calling read_all(fd) / read_all(fdopen) / load_file / fgets on its own pipe+writer or file with its own byte pattern "
            "(sizes k*16384+-2 up to 204800); the read interposer yields after each read until another thread has read too; the "
            "same part runs under ThreadSanitizer (stage c14-tsan). FAULT SEQUENCES: read plans may contain failing calls (-1/EINTR, "
            "-1/EIO, nothing transferred): read_all(fd) under every plan in {1,2,3,F,EINTR,EIO}^6/^7 x lengths 0..12 on a file (^4/^5 "
            "on a pipe), a failing call after 0..5 blocks for sizes to 200 KiB, readx/read/preadx/load_file with failing first "
            "call(s); the same at the fopencookie level for read_all(FILE*) ({..}^5/^6), fgets, freadx and random stream histories; a "
            "real SIGALRM interval timer (handler without SA_RESTART, 100..1000 us) while read_all(fd)/read_all(fdopen)/fgets/freadx "
            "block on a staggered pipe. Outcome must be an exception or the complete data. Write side: save_file x 12 sizes x "
            "interposed write plans (first write {1,n-1,n/2,4096,ENOSPC,EIO,EINTR,F} x second {F,1,ENOSPC,EINTR}), writex/pwritex on "
            "a registered descriptor, save_file to /dev/full, save_file in a forked child under a real RLIMIT_FSIZE (SIGXFSZ "
            "ignored) with the cut inside the last 4096-byte block or earlier: a normal return requires file == data. LYING METADATA: read_all(fd)/read_all(fopen)/load_file/"
            "fgets loop on real procfs files of a forked, SIGSTOPped child that mmapped 150..850 unmergeable regions "
            "(/proc/<pid>/maps > 3 pages, st_size 0, about one page per read()), smaps, status, environ, /proc/cpuinfo, compared with "
            "the harness' own read()-until-0 loop taken before and after (exact when both agree, digits-normalised otherwise); "
            "interposed fstat/stat reporting st_size in {0,n-1,n/2,n,n+1,2n,n+16384} for a file of n in {0,1,100,4096,5000,16384,"
            "20000,70000} bytes x 4 read plans while read() delivers the true bytes: true bytes or an exception. load_file(save_file(d)) for sizes 0..300, "
            "2^k+-2, random to 200 KiB (+5 short-read plans each: equal or throw); list_directory/list_directory_sorted vs created "
            "names (0..700/4000 entries, odd/hidden/255-byte names, files/dirs/symlinks/fifos); unlink(recursive) on random trees "
            "(<=200 nodes, depth<=6) beside sentinel siblings; dirname/basename over every string over {'/','a','.',NUL} up to "
            "length 8/10 + random; scoped_fd: every sequence of <=4/5 of 12 operations on two objects against an ownership "
            "model (close() log per descriptor number, /proc/self/fd before==after); Poll: every add/remove history of length "
            "<=6/7 over 3 descriptors x 2 event masks (9 ops per step) + histories <=4/5 with remove(fd,close_fd=true), observed "
            "through empty() and poll(0) on always-ready descriptors against std::map<int,short>. LONG HISTORIES / SIZE LADDERS "
            "(library algorithms switch behaviour at 16, 15/16, 13/29/59/127/257/541, 2^k): Poll histories with runs of k consecutive "
            "add() calls for every k in 1..70, 95..97, 127..129, 255..257, 299..301, 511..513 over 1, 2, 3, 5, 8, 16, 17, 40 "
            "descriptors (sockets ready for IN+OUT, pipe ends ready for IN only / OUT only / never) x 6 run patterns (round robin "
            "up/down, random, one descriptor re-added with alternating masks, blocks, many stale adds then a final pass) x 5 "
            "observation modes (after the run; empty() then a run of removes; one remove first; several runs with the observation "
            "deferred to the very end; at random points), runs of removes after m=1..40 descriptors were registered 1/2/3/17 times, "
            "16000/200000 random histories of up to 600 operations with sticky operation kinds and observation probability "
            "0, 1/64, 1/16, 1/4, 3200/40000 histories of up to 200 operations with remove(fd,true) over dup()s of /dev/null "
            "(close() log vs model); reference for poll(0) = ::poll on the model's map. list_directory for every entry count on the "
            "same ladder (<= 542/4097), unlink(recursive) on flat directories of every size on the ladder (<= 301/1025) and chains of "
            "depth 1..40, 63..65, 100, 127..129, 200, 300 (700), N scoped_fd objects in a std::vector through regrowth/erase/swap/"
            "move-assign/insert/destruction for N on the ladder (each descriptor closed exactly once, none while held), fgets loops "
            "over streams of N lines for N on the ladder (<= 513/4097) x 6 line-length patterns, 960/20000 stream histories of 1..301 "
            "calls on one stream (cursor model). "
            "PRIOR HISTORY: for every entry of the shared catalogue of ~280 earlier unrelated uses of phosg's helpers (join / split / fgets with "
            "total sizes 0..70000, one string_printf output of every length 0..132 and around every power of two up to 1 MiB, runs of 5000 "
            "short outputs, escapers, formatters, hash hex; harness/vf_history.hh) plus two-step histories, a FRESH thread runs the prior and "
            "then a mini-workload of every helper family: fgets over 16 line lengths straddling 254/255/256, 509..513, 1099/1100 in increasing, "
            "decreasing and zig-zag order (fopencookie with 3 plans, fmemopen), read_all(FILE*) on 8 and read_all(fd) on 6 sizes 0..50000 "
            "(descending and ascending), readx/freadx exact and over-long, load_file(save_file) over shrinking and growing sizes, 12 "
            "dirname/basename paths, list_directory of 7 entries; same oracles, keys <op>:prior-history:<family>:.... "
            "distinct_nontrivial = distinct (helper, source kind, plan family/size shape, outcome) classes, e.g. "
            "read_all_fd:file:blockplan:32K:ok, fgets:cookie:len254-257:unterminated:plan-255:ok, poll:final-size2:with-readd.",
    "level_text": "The delivery schedule is the fault being enumerated: within the stated bounds every chunking of the source "
                  "into short reads is executed against the real read_all/fgets/readx/freadx code, so 'reads until EOF' is "
                  "distinguished from 'reads once' deterministically instead of depending on pipe timing; the real-pipe part "
                  "adds genuinely concurrent writers but no verdict depends on timing (the oracle is equality with the payload, "
                  "which holds for correct code under every schedule). The scoped_fd and Poll parts are exhaustive over short "
                  "operation histories. Outside the enumerated bounds (longer plans, payloads > 200 KiB, EINTR/EIO injection, "
                  "NUL bytes inside fgets lines, symlinks to directories under unlink(recursive)) nothing is claimed. The "
                  "multi-threaded part is sampled (schedules are the scheduler's), with a bounded-yield rendezvous in the read "
                  "interposer to force overlap and a TSan stage for races that do not change a value.",
    "stages": [
        {"name": "c14", "variant": "asan", "shards": (16, 16), "extra_link": _WRAP, "timeout": (900, 7200)},
        # same harness, only the multi-threaded part, under ThreadSanitizer: a race that corrupts no value is still reported
        {"name": "c14", "tag": "c14-tsan", "variant": "tsan", "shards": (4, 8), "args": ["only=threads"], "class_prefix": "tsan:",
         "extra_link": _WRAP, "timeout": (900, 7200)},
    ],
    "min_evaluations": 1000000,
    "min_classes": {"quick": 150, "thorough": 150},
    "required_classes": [
        "read_all_fd:file:plan{1,2,3,F}^8:len4-12:*", "read_all_fd:pipe:plan*", "read_all_fd:file:blockplan:48K:*",
        "read_all_fd:*:randplan:>64K:*", "read_all_fd:live-pipe:*",
        "readx_fd:file:short-delivery:throw", "readx_fd:pipe:full-delivery:ok", "readx_fd_buf:*:ok", "read_fd:file:*",
        "preadx_fd:file:*:mid:ok", "preadx_fd_buf:file:*",
        "read_all_file:cookie:plan*", "read_all_file:cookie:blockplan:32K:*", "read_all_file:cookie:randplan:>64K:*",
        "read_all_file:live-pipe:*", "read_all_file:fopen:*",
        "freadx:cookie:size>source:throw", "freadx:cookie:size<=source:ok", "fread:cookie:*", "freadx:live-pipe:*",
        "fgets:cookie:len>513:terminated:plan-1:*", "fgets:cookie:len254-257:unterminated:plan-255:*",
        "fgets:cookie:len0:*", "fgets:cookie:random-lines:*", "fgets:live-pipe:*", "fgets:fopen:*",
        "load_save:roundtrip:0:*", "load_save:roundtrip:>64K:*", "load_file:short-plan:*:limit<size:*", "load_file:missing:throw",
        "list_directory:empty", "list_directory:many*", "list_directory:missing:throw",
        "unlink_recursive:deep-tree", "unlink_recursive:file", "unlink_recursive:dangling-symlink", "unlink:file",
        "path:absolute*", "path:relative:trailing-slash*",
        "scoped_fd:len4:*", "scoped_fd:open-missing:throws",
        "stream_history:fopen:read_all:after-stdio-reads:ok", "stream_history:fdopen-pipe:read_all:after-stdio-reads:ok",
        "stream_history:live-pipe:read_all:after-stdio-reads:ok", "stream_history:cookie:read_all:after-stdio-reads:ok",
        "stream_history:fopen:fgets:after-stdio-reads:ok", "stream_history:fopen:freadx:after-stdio-reads:ok",
        "stream_history:*:fgetcx:at-eof:throw", "stream_history:fopen:fread:fresh:ok",
        "fd_history:file:read_all:after-reads:ok", "fd_history:pipe:read_all:after-reads:ok", "fd_history:*:readx:*:throw",
        "read_all_fd:concurrent:*:ok", "read_all_file:concurrent:*:ok", "load_file:concurrent:*:ok", "fgets_concat:concurrent:*:ok",
        "tsan:read_all_fd:concurrent:*:ok", "tsan:fgets_concat:concurrent:*:ok",
        "read_all_fd:file+faults:len1-12:throw", "read_all_fd:pipe+faults:*", "read_all_fd:file+faults:fault-after-n-blocks:*",
        "readx_fd:file+faults:*", "read_fd:pipe+faults:*", "preadx_fd:file+faults:*", "load_file:faults:*",
        "read_all_file:cookie+faults:len1-12:*", "read_all_file:cookie+faults:fault-after-n-calls:*",
        "fgets:cookie+faults:*", "freadx:cookie+faults:*", "stream_history:cookie+faults:read_all:*",
        "read_all_fd:signal-pipe:*", "read_all_file:signal-pipe:*", "fgets:signal-pipe:*", "freadx:signal-pipe:*",
        "save_file:write-plan:write-disturbed:throw", "load_save:write-plan:write-undisturbed:ok", "writex:write-plan:*", "pwritex:write-plan:*",
        "save_file:dev-full:throw", "save_file:rlimit:cut-in-last-4096-block:throw", "save_file:rlimit:cut-earlier:throw", "save_file:rlimit:fits:ok",
        "procfs:read_all_fd:maps:>3pages:ok", "procfs:read_all_fopen:maps:>3pages:ok", "procfs:load_file:maps:*",
        "procfs:read_all_fd:smaps:*", "procfs:read_all_fd:status:*", "procfs:read_all_fd:environ:*", "procfs:read_all_fd:cpuinfo:*",
        "procfs:fgets_fopen:maps:*",
        "read_all_fd:lying-st_size:under-reported:*", "read_all_fd:lying-st_size:over-reported:*", "read_all_file:lying-st_size:*",
        "load_file:lying-st_size:under-reported:size-queried:*", "load_file:lying-st_size:over-reported:size-queried:*",
        "load_file:lying-st_size:true-size:*:ok",
        "poll:final-size0:with-readd", "poll:final-size3:*", "poll:close_fd:*:1-closed",
        "poll_long:add-run:batch17-64:observed-only-at-the-end", "poll_long:add-run:batch>64:observed-only-at-the-end",
        "poll_long:add-run:batch17-64:observed-after-the-run", "poll_long:add-run:batch>64:several-runs-observation-deferred",
        "poll_long:add-run:batch17-64:observed-at-random-points", "poll_long:add-run:batch<=16:*",
        "poll_long:remove-run:batch>64:*", "poll_long:remove-run:*:empty()-after-every-remove",
        "poll_long:random:batch>64:observed-only-at-the-end", "poll_long:random:batch17-64:observed-at-random-points",
        "poll_long:close_fd:batch17-64:*", "poll_long:close_fd:*:>16-closed",
        "list_directory:ladder:1-16-entries", "list_directory:ladder:17-64-entries", "list_directory:ladder:>257-entries",
        "unlink_recursive:ladder:flat:17-64-entries", "unlink_recursive:ladder:flat:>257-entries",
        "unlink_recursive:ladder:depth17-64", "unlink_recursive:ladder:depth>64",
        "scoped_fd_many:1-16-objects", "scoped_fd_many:17-64-objects", "scoped_fd_many:>257-objects",
        "fgets:cookie:many-lines:17-64:*:ok", "fgets:cookie:many-lines:>257:*:ok", "fgets:fopen:many-lines:65-257:*:ok",
        "stream_history:long:17-64-calls", "stream_history:long:>257-calls",
        "prior:none:fgets", "prior:join:fgets", "prior:fgets:fgets", "prior:split:fgets", "prior:printf-len:fgets", "prior:printf-run:fgets",
        "prior:escape:fgets", "prior:format:fgets", "prior:hash-hex:fgets", "prior:two-step:fgets",
        "prior:join:read_all", "prior:fgets:read_all", "prior:printf-len:read_all", "prior:printf-len:readx", "prior:join:load_save",
        "prior:printf-len:paths", "prior:join:list_directory", "prior:two-step:list_directory",
        "fgets:cookie:prior-history:increasing:ok", "fgets:cookie:prior-history:decreasing:ok", "fgets:cookie:prior-history:zig-zag:ok",
        "fgets:fmemopen:prior-history:decreasing:ok", "read_all_file:cookie:prior-history:*:ok", "read_all_fd:pipe:prior-history:*:ok",
        "read_all_fd:file:prior-history:*:ok", "readx_fd:file:prior-history:ok", "freadx:cookie:prior-history:ok", "freadx:cookie:prior-history:throw",
        "load_save:roundtrip:prior-history:*", "list_directory:prior-history:*",
    ],
    "exhaustive": {"quick": False, "thorough": False},
    "exhaustive_note": "enumerated completely: all {1,2,3,F}^8 read plans x 13 payload lengths for read_all(fd); all block plans "
                       "over {1,16383,16384,16385,F} x 18 sizes; all fgets last-line lengths 0..1100 x termination x plan set; "
                       "all scoped_fd operation sequences and all Poll add/remove histories up to the stated lengths. Sampled: "
                       "payloads/plans up to 200 KiB, pipe writer schedules, directory trees, file contents.",
    "assumptions": ASSUME_COMMON + [
        "Linux/glibc: --wrap interposes the calls made by the harness and by libphosg.a only; reads issued inside glibc "
        "(stdio on real descriptors) are not limited, which is why stdio-level plans use fopencookie streams",
        "injected failures are EINTR and EIO on reads, ENOSPC/EIO/EINTR and short counts on writes (no EAGAIN: blocking "
        "descriptors only); on descriptor-backed FILE*s glibc's internal read/write cannot be interposed with --wrap, so "
        "faults there come from the kernel (SIGALRM without SA_RESTART, /dev/full, RLIMIT_FSIZE)",
        "write plans are applied only to the descriptor number or the file (device/inode) the harness registered",
        "throwing is accepted wherever the statement says 'or throw' (e.g. load_file/readx under a short read); required "
        "coverage classes guarantee the non-throwing outcome was observed for every helper",
        "read(fd,size)/fread(f,size) are single-shot by contract: only 'exactly the bytes that call delivered / a prefix of "
        "the stream, never padded' is demanded",
        "fgets payloads contain no NUL bytes; unlink(recursive) trees contain no symlinks to directories",
        "the real-pipe and multi-threaded parts' interleavings depend on the scheduler; their oracles (own payload) do not",
        "TSan stage: g++ 12 ThreadSanitizer reports are trusted; the harness monitors use relaxed atomics so they add no "
        "happens-before edges between reader threads",
    ],
}
