"""C20 — integer, vector and matrix helpers."""
from ..props_common import ASSUME_COMMON

SPEC = {
    "level": "exploration",
    "rule": "gcd/reduce_fraction: all pairs in [0,300]^2 (or full width) per integer type + 2^k±1 boundary pairs + random; "
            "log2i: 2^k-1,2^k,2^k+1 for every k of every width, all 8/16-bit values, random; random_int: boundary spans; "
            "random_data: sizes crossing the 4096-byte refill inside canaries; Vector2/3 exhaustive over [-4,4]^n pairs, "
            "Vector4 sampled + all pairs over {-1,0,1}^4; Matrix4 random small-int (exact) and strictly diagonally dominant double matrices; "
            "round 5: structured matrices (every pair of 2^8 row/column structure masks x line kinds unit/diagonal/zero x fillings, "
            "permuted, shared-structure pairs, named special shapes) under all product/transpose laws against an own exact triple loop, "
            "in int64 and as power-of-two scaled double/float replicas; every dominant matrix (random and structured) also inverted "
            "scaled by 2^s along a ladder -500..500 (dense at 44..70, 120..130, 140..155), with non-uniform row/column scalings, and as "
            "Matrix4<float>; double vectors with components k*2^s (exact dot/cross/scalar forms). "
            "round 6: process environment at first use - forked children (the parent has made no random_* call yet) dup /dev/null until the "
            "lowest free descriptor is 3-ish (normal), 1023, 1024, 1025, 4096, 16384, then make the FIRST random_* call of the process "
            "(6 kinds: random_int tiny/63-bit span, random_data 1/4097 bytes/string, random_int on a fresh thread) and run the whole "
            "random_int / random_data judgement with the fillers open and again after closing them; descriptors 0-2 closed before first "
            "use is counted, not judged. "
            "distinct_nontrivial = distinct (helper, type, operand-shape) classes observed, e.g. gcd:u16:coprime, log2i:u64:bit47.",
    "stages": [
        {"name": "c20", "variant": "asan", "shards": (16, 16)},
    ],
    "min_evaluations": 100000,
    "min_classes": 200,
    "required_classes": ["gcd:u64:*", "gcd:i8:*", "log2i:u64:bit63", "log2i:u8:bit7", "log2i:i16:bit14", "random_int:*",
                         "random_data:>8192", "v2:*", "v3:*", "v4:*", "matrix:int:*", "matrix:dominant:*", "log2i:ulonglong:bit63", "log2i:longlong:bit62",
                         "vector2d:float:eq:*", "vector4d:float:*", "matrix:dominant:style3", "matrix:dominant:style4",
                         "random_data:signal-storm:32MiB",
                         "random:fd:regime:normal", "random:fd:regime:fd1023", "random:fd:regime:fd1024", "random:fd:regime:fd1025",
                         "random:fd:regime:fd4096", "random:fd:regime:fd16384", "random:fd:urandom-fd1024:first-random_int-*",
                         "random:fd:urandom-fd1024:first-random_data-*", "random:fd:urandom-fd1023:*", "random:fd:urandom-fd4096..16383:*",
                         "random:fd:stdio-closed:counted-not-judged",
                         "matrix:struct:masks:kinds0000", "matrix:struct:masks:kinds1111", "matrix:struct:masks:kinds2222",
                         "matrix:struct:masks-permuted:*", "matrix:struct:shared", "matrix:struct:special",
                         "matrix:dominant:structured:kind0:fill*", "matrix:dominant:structured:kind1:fill3",
                         "matrix:dominant:float:*", "vector3d:scaled:*", "v4:enumerated:*"],
    "assumptions": ASSUME_COMMON + ["random_data 'every position rewritten' monitor has a 256^-8 per-position false-alarm probability",
                                    "the first-use regimes need RLIMIT_NOFILE (hard) >= 16448; a run under a lower limit lacks the required classes and is inconclusive",
                                    "a process whose descriptors 0-2 are closed at first use (so /dev/urandom becomes descriptor 0) is outside the statement: counted only"],
}
