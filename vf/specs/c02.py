"""C02 — bounds-checked readers/writers never touch memory outside their buffer."""
from ..props_common import ASSUME_COMMON

SPEC = {
    "level": "exploration",
    "technique": "runtime monitoring: every StringReader/BufferWriter/StringWriter accessor driven over a full-size_t boundary "
                 "table and random cursor histories on red-zoned and guard-paged buffers, judged by 128-bit range arithmetic",
    "rule": "Boundary table: for each buffer length n in {0..9,15,16,17,63,64} (+31,32,33,255,256,4095,4096,4097 thorough) and each "
            "buffer kind (exact-size malloc block, mmap region ending at a PROT_NONE page, mmap region starting after one, std::string / "
            "shared_ptr<string>), the cross product offset x size (or cursor x size x advance) over {0,1,2,3,n-1,n,n+1,2n,2^31,2^32,2^63-1,"
            "2^63,2^63+1,2^64-n-1..2^64-n+1,2^64-k (k=1..16; ..40 thorough)} plus, per offset, the sizes that sit exactly on the range "
            "boundary or make offset+size wrap to 0,1,n,n+1 — for every accessor (pgetv, pget<T>, 26 typed pget_*/get_*, getv, get<T>, "
            "peek, preadx/readx x2, pread/read x2, sub/subx/sub_bits/subx_bits x2, skip, skip_if, pget_cstr/get_cstr, get_line, all, "
            "truncate; BufferWriter pwrite/write x2 and 34 put_*/pput_*; StringWriter 34 pput_* with offsets <=4096 or >=2^63). "
            "Cursor-past-the-end stage (own child): go(k) or the constructor offset with k in {n+1..n+4,n+7..n+9,n+15..n+17,n+63,n+64,n+4095..n+4097,2n+1,2^31,2^32,2^63-1..2^63+1,2^64-n-2..2^64-n,2^64-k (k=1..16)}, then every cursor operation (getv, get<T>, peek, 26 get_*, readx/read x2, skip, skip_if with a needle equal/unequal to the slack bytes around the buffer, get_cstr, get_line) with sizes around 0, n, the wrapped remaining() and the values making cursor+size wrap into the buffer: the outcome must be std::out_of_range or an empty/false result; a pointer, a value, bytes, a reported match, a sanitizer report or a guard-page fault is a violation keyed cursor_past_end:<family>:out-of-buffer-read. "
            "Aliasing stage (own child): a StringWriter holding n0 pattern bytes (n0 = 1..34, 47..65, 119..128, 240..256, 1000, 4096; thorough 1..300; capacity as built and shrunk to size()==capacity()) receives put<T>(ref) for 1,2,3,4,8,13,16,32,64-byte records where ref is a reference INTO its own data (StringReader(w.str()).pget<T>(off), .get<T>(), reinterpret_cast) at the first/middle/last position, write(w.str().data()+off, len) and write(w.str()); the result must be old data + a snapshot of the source taken before the call, whether or not the append reallocates (SSO->heap at 15/16, growth at exact capacity); ASan watches for the use-after-free. "
            "Derived-views stage (own child): parents = raw exact-size and guard-paged buffers, StringReader(const string&), StringReader(shared_ptr) with a second holder, and readers that are the SOLE owner of their string (direct and through a copy), n in {1,2,8,15,16,17,24,31,32,33,64,100,256,1000,4096} (thorough +18..80); views = sub/subx 1- and 2-argument, sub_bits/subx_bits, pgetv, &pget<T>, peek, getv, &get<T> over 7 ranges; then one of 23 parent scenarios (truncate equal/smaller/0/larger/twice, go, skip, reads, typed gets, get_line/get_cstr, further subs, copy+destroy, copy+truncate either side, move, self-copy assignment, truncate followed by parent reads) or a seeded random sequence of 1..6 parent operations; afterwards every view must still read the ORIGINAL bytes of its range (in = still inside the parent, past-end = parent truncated below the view) with no sanitizer report. "
            "Histories: seeded random sequences of 1..24 ops (go inside / just past / far past the end, mixed reads, truncate, descent into "
            "sub-readers) with boundary-biased arguments. Oracle: request (off,size) on n bytes is in range iff off<=n && size<=n-off "
            "(unsigned __int128); throwing forms return exactly the slice or throw std::out_of_range, clamping forms return the in-range "
            "prefix, sub-reader extents are checked numerically before any dereference, a read starting at where()<=n never ends at "
            "where()>n, BufferWriter stores exactly [off,off+size) or throws leaving the buffer unchanged, StringWriter::pput yields old data "
            "+ zero fill + value or throws. Each accessor family runs in a forked child; a sanitizer/guard-page death is a violation keyed "
            "<family>:<request class>. distinct_nontrivial = distinct (accessor group, request class in/end/zero-at-end/past-end/wrapped/"
            "terminated/unterminated/grow, outcome slice/throw/empty/prefix) triples observed.",
    "level_text": "Exploration: exhaustive over the stated boundary table (every accessor x every table pair x every buffer kind), sampled "
                  "elsewhere. The family of defects the property is about (offset+size wrap-around, a line reader stepping past the end) "
                  "lives exactly on those boundary values, and every accessor's guard is a comparison of the form covered by the table; a "
                  "defect confined to non-boundary mid-range values would only be found by the random histories.",
    "stages": [
        {"name": "c02", "variant": "asan", "shards": (16, 16), "timeout": (900, 7200), "args": ["alias_pput=1"]},
    ],
    "min_evaluations": 500000,
    "min_classes": {"quick": 150, "thorough": 150},
    "required_classes": [
        "pgetv:wrapped:throw", "pgetv:end:slice", "pgetv:zero-at-end:*", "pget<T>:wrapped:throw",
        "pget:w1:wrapped:throw", "pget:w2:wrapped:throw", "pget:w3:wrapped:throw", "pget:w4:wrapped:throw", "pget:w6:wrapped:throw",
        "pget:w8:wrapped:throw", "pget:w3:end:slice", "pget:w6:end:slice", "pget:w8:past-end:throw",
        "getv:wrapped:throw", "get<T>:wrapped:throw", "peek:wrapped:throw", "get:w4:wrapped:throw", "get:w3:end:slice", "get:w6:past-end:throw",
        "preadx(str):wrapped:throw", "preadx(buf):wrapped:throw", "readx(str):wrapped:throw", "readx(buf):wrapped:throw", "readx(buf):end:slice",
        "pread(str):wrapped:prefix", "pread(str):wrapped:empty", "pread(buf):wrapped:prefix", "read(str):wrapped:prefix", "read(buf):wrapped:prefix",
        "read(buf):past-end:empty", "pread(str):past-end:prefix",
        "sub(o,s):wrapped:prefix", "sub_bits(o,s):wrapped:prefix", "sub(o):past-end:empty", "sub_bits(o):in:slice",
        "subx(o,s):wrapped:throw", "subx_bits(o,s):wrapped:throw", "subx(o):past-end:throw", "subx(o,s):end:slice", "subx_bits(o,s):end:slice",
        "skip:wrapped:throw", "skip:past-end:throw", "skip:end:slice", "skip_if:wrapped:empty", "skip_if:end:slice",
        "pget_cstr:wrapped:throw", "pget_cstr:terminated:slice", "pget_cstr:unterminated:throw", "get_cstr:terminated:slice",
        "get_cstr:unterminated:throw", "get_cstr:wrapped:throw",
        "get_line:unterminated:slice", "get_line:terminated:slice", "get_line:zero-at-end:*", "all:end:slice", "truncate:past-end:throw",
        "truncate:in:slice",
        "bw.pwrite:wrapped:throw", "bw.pwrite:end:slice", "bw.pwrite(str):past-end:throw", "bw.write:wrapped:throw", "bw.write:end:slice",
        "bw.write(str):past-end:throw", "bw.pput:w1:wrapped:throw", "bw.pput:w8:wrapped:throw", "bw.pput:w4:end:slice", "bw.put:w2:past-end:throw",
        "bw.put:w8:end:slice",
        "sw.pput:w1:wrapped:throw", "sw.pput:w2:wrapped:throw", "sw.pput:w4:wrapped:throw", "sw.pput:w8:wrapped:throw", "sw.pput:w8:past-end:throw",
        "sw.pput:w4:grow:slice", "sw.pput:w2:in:slice", "sw.append:grow:slice",
        # aliasing stage: value passed by reference lives inside the growable writer's own data
        "sw.put<T>(alias):realloc:slice", "sw.put<T>(alias):in-capacity:slice", "sw.write(alias):realloc:slice",
        "sw.write(alias):in-capacity:slice", "sw.write(own str):realloc:slice",
        # derived-views stage: sub-readers / BitReaders / pointers taken before parent operations
        "view:parent-op:in:slice", "view:sub-reader:in:slice", "view:sub-reader:past-end:slice", "view:bit-reader:in:slice",
        "view:bit-reader:past-end:slice", "view:pointer:in:slice", "view:pointer:past-end:slice",
        # cursor-past-the-end stage: every cursor operation was driven from go(k), k > n
        "cursor_past_end:skip_if:*", "cursor_past_end:skip:*", "cursor_past_end:getv:throw",
        "cursor_past_end:get<T>:throw", "cursor_past_end:peek:throw", "cursor_past_end:get:w1:throw", "cursor_past_end:get:w2:throw",
        "cursor_past_end:get:w3:throw", "cursor_past_end:get:w4:throw", "cursor_past_end:get:w6:throw", "cursor_past_end:get:w8:throw",
        "cursor_past_end:readx(str):throw", "cursor_past_end:readx(buf):throw", "cursor_past_end:read(str):empty",
        "cursor_past_end:read(buf):empty", "cursor_past_end:get_cstr:throw", "cursor_past_end:get_line:*",
    ],
    "exhaustive": {"quick": False, "thorough": False},
    "exhaustive_note": "the boundary table (accessor x n x buffer kind x offset x size [x advance]) is enumerated completely; the space of "
                       "all size_t pairs is not",
    "assumptions": ASSUME_COMMON + [
        "StringWriter::pput offsets are restricted to <= 4096 or >= 2^63: mid-range offsets would legitimately try to allocate terabytes "
        "(gnu++20 std::string::max_size() is 2^63-1, so offsets >= 2^63 must fail fast)",
        "not demanded: zero-size requests at offset == n may return empty or throw; after an explicit go() past the end the RESULT of skip()/skip_if() (exception vs false/clamp) - they are still required not to read outside the buffer; "
        "BitReader::pread bounds; cursor position after a rejected BufferWriter::write; get_line at/after the end may return empty or throw",
        "sub-reader extents, BitReader extents and the BufferWriter cursor are observed through '#define private public' (access only; layout unchanged)",
        "value correctness of the signed 24/48-bit accessors is compared through phosg's own ext24/ext48 (their defect is C01's subject)",
    ],
}
