"""C11 — text encodings (base64, rot13, escapers, netloc) are exact inverses and strict."""
from ..props_common import ASSUME_COMMON

SPEC = {
    "level": "exploration",
    "technique": "runtime monitoring: real base64/rot13/escape_*/netloc code under ASan+UBSan; results logged and judged in "
                 "Python by base64, a strictness predicate, urllib.parse.unquote_to_bytes and an independent unescaper",
    "rule": "vf/oracles/c11.py writes the inputs; harness/c11.cc runs phosg on each (inputs in exact-size heap blocks) and logs "
            "status+bytes; the Python judge decides. base64_encode: all byte strings of length 0..2, all of length 3 over a "
            "32-value (quick) / 64-value (thorough) byte subset, 20k/100k random longer, both alphabets, compared with "
            "base64.b64encode/urlsafe_b64encode and decoded back. base64_decode strictness: EVERY 4-character string over "
            "{A Q / + - _ = ! 00 80 FF}, every 8-character string over {A Q = ! / -} (quick) / plus FF (thorough), every string "
            "of length 1,2,3,5,6,7 over {A Q = !}, every single-character corruption (each position x 20 replacement bytes) and "
            "length corruption of 200/1000 valid encodings, 20k/100k random mixed-alphabet strings; the predicate `wellformed` "
            "(length%4, alphabet membership, '=' exactly the last one or two positions) decides must-throw-invalid_argument, "
            "canonical well-formed strings must decode to Python's value, non-canonical trailing bits are unconstrained. "
            "rot13: all 0..2-byte strings + random. escape_url (2 modes), escape_controls (2 modes), escape_quotes: all 0..2-byte "
            "strings + 10k/100k random each. netloc: every port 0..65535 x 16 (quick) / 110 (thorough) colon-free hosts. "
            "Early-call probe: every function called once from a static initializer of the harness TU; the stored results are "
            "logged in place of the first 11 records of every shard and judged like any other record (keys early-call:*). "
            "Alignment sweep: base64_encode / base64_decode (valid encodings and arbitrary strings) / rot13 inputs of every size 0..80 "
            "and 10 larger sizes at pointer offsets 1..15 of a 16-byte aligned block, flush against the block end and with 16 spare "
            "bytes behind; result must equal the aligned (logged, judged) result. Dense sweeps: base64 encode->decode round trip and "
            "encoded length for EVERY input length 0..16500 (quick) / 0..70000 (thorough), both alphabets, every 8th / 64th pair "
            "compared with Python base64; every length 0..5000 for rot13 and all five escaper modes. "
            "Length ladder: every size 2^k+d (k=3..20) and 3*2^k+d (k=2..18), d in -2..+2 (above 64 KiB only -1..+1 in the quick "
            "tier), plus 12286/12290 and 1 MiB+1 = 157 (quick) / 173 (thorough) sizes, for base64_encode (2 alphabets x uniform / "
            "sextet-62/63-heavy data), base64_decode (valid encodings of the encoded lengths next to each size with all padding shapes + "
            "a copy with one non-alphabet character at the ends / middle / next to a 4 KiB, 16 KiB or 64 KiB boundary, 2 alphabets), "
            "rot13, escape_url x2, escape_controls x2, escape_quotes (nothing-to-escape / every-byte-escaped / mixed data up to 64 KiB, "
            "sparse above). Concurrency stages (4 asan + 2 tsan processes): ~380 records per process (encode/decode both alphabets incl. corrupted "
            "encodings, rot13, escape_url x2, escape_controls x2, escape_quotes with inputs whose every byte needs a different escape, "
            "netloc 48-port ranges); one single-threaded pass is logged and judged as above, then 8 threads (barrier start) repeat "
            "their own records for 60/300 (asan) or 4/25 (tsan) rounds and every result must be byte-identical to that pass. "
            "Hosts from neighbouring notations: every (host, port) with port in an 18-step ladder (0, 1, 9, 10, 79, 80, 99, 100, 443, 999, 1000, "
            "8080, 9999, 10000, 32767, 32768, 65534, 65535) and host in: all 255 non-colon single bytes; each of them at both ends of longer "
            "hosts; 116 hand-written bracket / @ / slash / ? / # / % / + / space / NUL / quote / backslash hosts; all-digit and port-like hosts; "
            "inner strings wrapped in 15 delimiter pairs ([] () <> {} quotes ...) in 7 arrangements; 400/4000 random strings over a syntax-heavy "
            "alphabet; EVERY string of length 1..4 (quick) / 1..5 (thorough) over {[ ] a 1 . - @ / %} (keys netloc:*:<family>). "
            "Escapers: every string of length 3 over 12 and of length 4 over 8 characters of the escape notations themselves (% \\ x 4 1 \" ' n / "
            "space + &; thorough: length 4 over 12, length 5 over 8) plus 46 already-escaped-looking strings, all five modes. "
            "Cold start (harness/c11_cold.cc, asan 8 x 250/2500 and tsan 4 x 30/300 fresh processes): the parent never calls a C11 function; "
            "each forked child starts 2..8 threads behind a spin barrier whose FIRST action (after a per-thread delay of 0..256 pause "
            "iterations in half of the trials) is a C11 call - all threads the same function/mode (every function/mode in turn), two "
            "functions that could share lazily built state, or a random mix - followed by 0..2 more calls per thread (including calls with a "
            "caller-supplied alphabet as perturbers, logged but not judged); the cold results are judged by the Python oracle (keys "
            "cold-start:<function>:<law>) and must equal a warm single-threaded repeat in the same process (cold-start:<function>:first-call-"
            "differs-from-warm-repeat); every 4th child leaves through exit() (leak check), ThreadSanitizer watches the tsan children. "
            "First-call overlap is measured with relaxed atomic counters (counters cold_processes_with_first_call_overlap). "
            "Prior history (16 asan processes): for every entry of the shared catalogue of ~280 earlier unrelated uses of phosg's helpers (one "
            "string_printf output of every length 0..132 and around every power of two up to 1 MiB, runs of 5000 short outputs, join / split / fgets "
            "ladders, escapers, formatters, hash hex) plus two-step histories, a fresh thread runs the prior and then ~85 records short to long: "
            "encode+decode both alphabets, valid and corrupted decodes, rot13, escape_url x2, escape_controls x2, escape_quotes (every byte escaped / "
            "nothing escaped / mixed; over the shards every length 0..40 for every function, plus 63..5000) and netloc triples; judged like the main "
            "stage (keys <function>:prior-history:<family>:<law>). "
            "distinct_nontrivial = distinct (function, alphabet/mode, input shape, outcome / malformation reason) classes.",
    "level_text": "Strictness and inverse-ness are decided on completely enumerated small scopes (all short byte strings; all 4- and "
                  "8-character strings over a reduced alphabet that contains valid, padding, cross-alphabet, invalid, NUL and high "
                  "bytes; every position x 20 replacement bytes of valid encodings; every port) and on seeded random longer inputs, "
                  "with an independent implementation as judge and ASan/UBSan watching. A defect that needs a specific character "
                  "outside the reduced alphabets at a specific position of a long string could be missed.",
    "stages": [
        {"kind": "py", "name": "c11", "tag": "c11", "func": "c11:stage"},
        # concurrency: 8 threads per process repeat their own records at the same time; results must equal the judged
        # single-threaded pass (asan build), and ThreadSanitizer watches a shorter run of the same thing
        {"kind": "py", "name": "c11-mt", "tag": "c11-mt", "func": "c11:stage_mt", "variant": "asan", "class_prefix": "mt:"},
        {"kind": "py", "name": "c11-mt-tsan", "tag": "c11-mt-tsan", "func": "c11:stage_mt", "variant": "tsan", "class_prefix": "tsan:"},
        # cold start: fresh processes (fork from a parent that never called a C11 function) whose 2..8 threads make the process's
        # FIRST calls at the same moment; cold results judged by the Python oracle and compared with a warm repeat (asan), and the
        # same under ThreadSanitizer (an unsynchronised first-use initialisation is a race whatever values come out)
        {"kind": "py", "name": "c11-cold", "tag": "c11-cold", "func": "c11:stage_cold", "variant": "asan", "class_prefix": "cold:"},
        {"kind": "py", "name": "c11-cold-tsan", "tag": "c11-cold-tsan", "func": "c11:stage_cold", "variant": "tsan", "class_prefix": "cold-tsan:"},
        # prior history: fresh thread -> one earlier unrelated use of phosg's shared helpers (catalogue harness/vf_history.hh,
        # spread over 16 processes) -> a mini-workload of every C11 function, judged by the Python oracle like the main stage
        {"kind": "py", "name": "c11-hist", "tag": "c11-hist", "func": "c11:stage_hist", "variant": "asan", "class_prefix": "hist:"},
    ],
    "min_evaluations": 1000000,
    "min_classes": {"quick": 120, "thorough": 120},
    "required_classes": [
        "b64enc:std:rem0:*", "b64enc:std:rem1:*", "b64enc:std:rem2:*", "b64enc:urlsafe:rem0:*", "b64enc:urlsafe:rem1:*",
        "b64enc:urlsafe:rem2:*", "b64enc:explicit-DEFAULT_ALPHABET-pointer",
        "b64dec:enumerated:L4:11syms:std", "b64dec:enumerated:L4:11syms:urlsafe", "b64dec:enumerated:L8:*:std",
        "b64dec:enumerated:L8:*:urlsafe", "b64dec:enumerated:L7:*",
        "b64dec:valid:0-pad:*", "b64dec:valid:1-pad:*", "b64dec:valid:2-pad:*",
        "b64dec:malformed:length%4=1:*", "b64dec:malformed:length%4=2:*", "b64dec:malformed:length%4=3:*",
        "b64dec:malformed:non-alphabet-char:pos0-of-final-group:*", "b64dec:malformed:non-alphabet-char:pos1-of-final-group:*",
        "b64dec:malformed:non-alphabet-char:pos2-of-final-group:1-pad:*", "b64dec:malformed:non-alphabet-char:pos3-of-final-group:*",
        "b64dec:malformed:non-alphabet-char:pos2-of-inner-group:*", "b64dec:malformed:padding-misplaced:inner-group:*",
        "b64dec:malformed:padding-misplaced:final-group:*", "b64dec:malformed:padding-then-data:*",
        "rot13:letters:*", "rot13:no-letters:*",
        "escape_url:keep-slash:escaped:*", "escape_url:escape-slash:escaped:*", "escape_url:keep-slash:verbatim:*",
        "escape_controls:ascii:escaped:*", "escape_controls:utf8:escaped:*", "escape_controls:utf8:verbatim:*",
        "escape_quotes:escaped:*", "escape_quotes:verbatim:*",
        "mt:concurrent:8threads:base64_encode:*", "mt:concurrent:8threads:base64_decode:flag1:*", "mt:concurrent:8threads:rot13:*",
        "mt:concurrent:8threads:escape_url:flag1:*", "mt:concurrent:8threads:escape_controls:flag0:*",
        "mt:concurrent:8threads:escape_controls:flag1:*", "mt:concurrent:8threads:escape_quotes:*", "mt:concurrent:8threads:netloc:*",
        "tsan:concurrent:8threads:escape_controls:*", "tsan:concurrent:8threads:escape_quotes:*", "tsan:concurrent:8threads:base64_decode:*",
        "tsan:concurrent:8threads:netloc:*",
        "big:b64enc:std:4K-16K", "big:b64enc:std:>=1MiB", "big:b64enc:urlsafe:4K-16K", "big:b64enc:urlsafe:>=1MiB",
        "big:b64dec:std:returned:>=1MiB", "big:b64dec:urlsafe:returned:>=1MiB", "big:b64dec:std:rejected:16K-64K",
        "big:b64dec:urlsafe:rejected:64K-1M", "big:rot13:>=1MiB", "big:escape_url:keep-slash:>=1MiB", "big:escape_url:escape-slash:>=1MiB",
        "big:escape_controls:ascii:>=1MiB", "big:escape_controls:utf8:>=1MiB", "big:escape_quotes:>=1MiB",
        "big:escape_url:*:4K-16K", "big:escape_controls:*:4K-16K", "big:escape_quotes:4K-16K",
        "early-call:b64enc:std:*", "early-call:b64enc:urlsafe:*", "early-call:b64dec:valid:*", "early-call:b64dec:malformed:*",
        "early-call:rot13:*", "early-call:escape_url:keep-slash:*", "early-call:escape_url:escape-slash:*",
        "early-call:escape_controls:ascii:*", "early-call:escape_controls:utf8:*", "early-call:escape_quotes:*", "early-call:netloc",
        "alignment:base64_encode:std:len<=80", "alignment:base64_encode:urlsafe:large", "alignment:base64_decode:std:len<=80",
        "alignment:base64_decode:urlsafe:large", "alignment:rot13:std:len<=80", "alignment:rot13:std:large",
        "b64sweep:sampled-vs-python:std:*", "b64sweep:sampled-vs-python:urlsafe:*", "exec:b64sweep:std:*", "exec:b64sweep:urlsafe:*",
        "netloc:host-1char*", "netloc:host-255+*", "netloc:*highbytes*", "netloc:*:ports-from0", "netloc:*:ports-to65535",
        "netloc-ladder:single-byte:*", "netloc-ladder:byte-at-ends:brackets", "netloc-ladder:syntax-chars:brackets",
        "netloc-ladder:syntax-chars:syntax-chars", "netloc-ladder:all-digits-portlike:all-digits", "netloc-ladder:wrapped-in-delimiters:brackets",
        "netloc-ladder:random-syntax-mix:*", "netloc-ladder:enum-syntax-alphabet:enumerated:L1:*", "netloc-ladder:enum-syntax-alphabet:enumerated:L4:*",
        "netloc-ladder:enum-syntax-alphabet:brackets",
        "cold:first-call:base64_encode:std", "cold:first-call:base64_encode:urlsafe", "cold:first-call:base64_decode:std",
        "cold:first-call:base64_decode:urlsafe", "cold:first-call:base64_decode:std-explicit", "cold:first-call:rot13:*",
        "cold:first-call:escape_url:flag0", "cold:first-call:escape_url:flag1", "cold:first-call:escape_controls:flag0",
        "cold:first-call:escape_controls:flag1", "cold:first-call:escape_quotes:*", "cold:first-call:netloc:*",
        "cold:first-call:trial-kind:same", "cold:first-call:trial-kind:pair", "cold:first-call:trial-kind:mixed",
        "cold:first-call:threads2", "cold:first-call:threads8", "cold:first-calls-judged-by-python",
        "cold-tsan:first-call:base64_encode:std", "cold-tsan:first-call:base64_decode:std", "cold-tsan:first-call:base64_decode:urlsafe",
        "cold-tsan:first-call:rot13:*", "cold-tsan:first-call:escape_url:flag0", "cold-tsan:first-call:escape_controls:flag0",
        "cold-tsan:first-call:escape_controls:flag1", "cold-tsan:first-call:escape_quotes:*", "cold-tsan:first-call:netloc:*",
        "cold-tsan:first-call:trial-kind:same", "cold-tsan:first-call:threads2", "cold-tsan:first-call:threads8",
        "hist:prior:none:judged-by-python", "hist:prior:printf-len:judged-by-python", "hist:prior:printf-run:judged-by-python",
        "hist:prior:join:judged-by-python", "hist:prior:split:judged-by-python", "hist:prior:fgets:judged-by-python",
        "hist:prior:escape:judged-by-python", "hist:prior:format:judged-by-python", "hist:prior:hash-hex:judged-by-python",
        "hist:prior:two-step:judged-by-python", "hist:prior:printf-len:executed", "hist:prior:printf-run:executed", "hist:results-judged-by-python",
    ],
    "exhaustive": {"quick": False, "thorough": False},
    "exhaustive_note": "enumerated completely: byte strings of length 0..2 for every function; 4-character strings over 11 symbols "
                       "and 8-character strings over 6 (quick) / 7 (thorough) symbols for base64_decode with both alphabets; "
                       "ports 0..65535 for every host of the first netloc group; hosts of length 1..4 (quick) / 1..5 (thorough) over "
                       "{[ ] a 1 . - @ / %} x 18 ports; escaper inputs of length 3 over 12 / length 4 over 8 escape-syntax characters. "
                       "Longer inputs are sampled.",
    "assumptions": ASSUME_COMMON + [
        "Python base64 / urllib.parse.unquote_to_bytes and the predicate/unescaper in vf/oracles/c11.py are correct (self-tested "
        "at the start of every run)",
        "'padding only in the last one or two positions' is read as: the set of '=' positions is empty, {n-1} or {n-2,n-1}; "
        "well-formed strings with non-zero discarded bits (e.g. \"QR==\") are neither required to decode nor to throw",
        "concurrency: the functions are pure functions of their arguments; schedules are those the OS produced for 8 free-running "
        "threads per process; TSan reports races on the executions it saw",
        "cold start: a process forked from a parent that never called a C11 function is as fresh, for the C11 functions, as a newly "
        "exec'ed one (statics of libphosg untouched); first-call interleavings are those the OS produced for 2..8 threads released "
        "together or with sub-microsecond offsets",
        "netloc hosts are arbitrary non-empty byte strings without 0x3A; the port is 0..65535 and parse_netloc is called with default port 0",
        "permitted characters: escape_url -> [A-Za-z0-9-_.~=&] ('/' too unless escape_slash) and %HH; escape_controls -> 0x20..0x7E "
        "(plus >=0x80 when escape_non_ascii is false) with quote, apostrophe, backslash only inside \\-escapes; escape_quotes -> "
        "0x20..0x7E with every '\"' directly preceded by a backslash",
    ],
}
