"""C11 — text encodings (base64, rot13, escapers, netloc) are exact inverses and strict."""
from ..props_common import ASSUME_COMMON

SPEC = {
    "level": "exploration",
    "technique": "runtime monitoring: real base64/rot13/escape_*/netloc code under ASan+UBSan; results logged and judged in "
                 "Python by base64, a strictness predicate, urllib.parse.unquote_to_bytes and an independent unescaper",
    "rule": "vf/oracles/c11.py writes the inputs; harness/c11.cc runs phosg on each (inputs in exact-size heap blocks) and logs "
            "status+bytes; the Python judge decides. base64_encode: all byte strings of length 0..2, all of length 3 over a "
            "32-value (quick) / 64-value (thorough) byte subset, 20k/100k random longer, both alphabets, compared with "
            "base64.b64encode/urlsafe_b64encode and decoded back. base64_decode strictness: EVERY 4-character string over "
            "{A Q / + - _ = ! 00 80 FF}, every 8-character string over {A Q = ! / -} (quick) / plus FF (thorough), every string "
            "of length 1,2,3,5,6,7 over {A Q = !}, every single-character corruption (each position x 20 replacement bytes) and "
            "length corruption of 200/1000 valid encodings, 20k/100k random mixed-alphabet strings; the predicate `wellformed` "
            "(length%4, alphabet membership, '=' exactly the last one or two positions) decides must-throw-invalid_argument, "
            "canonical well-formed strings must decode to Python's value, non-canonical trailing bits are unconstrained. "
            "rot13: all 0..2-byte strings + random. escape_url (2 modes), escape_controls (2 modes), escape_quotes: all 0..2-byte "
            "strings + 10k/100k random each. netloc: every port 0..65535 x 16 (quick) / 110 (thorough) colon-free hosts. "
            "Early-call probe: every function called once from a static initializer of the harness TU; the stored results are "
            "logged in place of the first 11 records of every shard and judged like any other record (keys early-call:*). "
            "Alignment sweep: base64_encode / base64_decode (valid encodings and arbitrary strings) / rot13 inputs of every size 0..80 "
            "and 10 larger sizes at pointer offsets 1..15 of a 16-byte aligned block, flush against the block end and with 16 spare "
            "bytes behind; result must equal the aligned (logged, judged) result. Dense sweeps: base64 encode->decode round trip and "
            "encoded length for EVERY input length 0..16500 (quick) / 0..70000 (thorough), both alphabets, every 8th / 64th pair "
            "compared with Python base64; every length 0..5000 for rot13 and all five escaper modes. "
            "Length ladder: every size 2^k+d (k=3..20) and 3*2^k+d (k=2..18), d in -2..+2 (above 64 KiB only -1..+1 in the quick "
            "tier), plus 12286/12290 and 1 MiB+1 = 157 (quick) / 173 (thorough) sizes, for base64_encode (2 alphabets x uniform / "
            "sextet-62/63-heavy data), base64_decode (valid encodings of the encoded lengths next to each size with all padding shapes + "
            "a copy with one non-alphabet character at the ends / middle / next to a 4 KiB, 16 KiB or 64 KiB boundary, 2 alphabets), "
            "rot13, escape_url x2, escape_controls x2, escape_quotes (nothing-to-escape / every-byte-escaped / mixed data up to 64 KiB, "
            "sparse above). Concurrency stages (4 asan + 2 tsan processes): ~380 records per process (encode/decode both alphabets incl. corrupted "
            "encodings, rot13, escape_url x2, escape_controls x2, escape_quotes with inputs whose every byte needs a different escape, "
            "netloc 48-port ranges); one single-threaded pass is logged and judged as above, then 8 threads (barrier start) repeat "
            "their own records for 60/300 (asan) or 4/25 (tsan) rounds and every result must be byte-identical to that pass. "
            "distinct_nontrivial = distinct (function, alphabet/mode, input shape, outcome / malformation reason) classes.",
    "level_text": "Strictness and inverse-ness are decided on completely enumerated small scopes (all short byte strings; all 4- and "
                  "8-character strings over a reduced alphabet that contains valid, padding, cross-alphabet, invalid, NUL and high "
                  "bytes; every position x 20 replacement bytes of valid encodings; every port) and on seeded random longer inputs, "
                  "with an independent implementation as judge and ASan/UBSan watching. A defect that needs a specific character "
                  "outside the reduced alphabets at a specific position of a long string could be missed.",
    "stages": [
        {"kind": "py", "name": "c11", "tag": "c11", "func": "c11:stage"},
        # concurrency: 8 threads per process repeat their own records at the same time; results must equal the judged
        # single-threaded pass (asan build), and ThreadSanitizer watches a shorter run of the same thing
        {"kind": "py", "name": "c11-mt", "tag": "c11-mt", "func": "c11:stage_mt", "variant": "asan", "class_prefix": "mt:"},
        {"kind": "py", "name": "c11-mt-tsan", "tag": "c11-mt-tsan", "func": "c11:stage_mt", "variant": "tsan", "class_prefix": "tsan:"},
    ],
    "min_evaluations": 1000000,
    "min_classes": {"quick": 120, "thorough": 120},
    "required_classes": [
        "b64enc:std:rem0:*", "b64enc:std:rem1:*", "b64enc:std:rem2:*", "b64enc:urlsafe:rem0:*", "b64enc:urlsafe:rem1:*",
        "b64enc:urlsafe:rem2:*", "b64enc:explicit-DEFAULT_ALPHABET-pointer",
        "b64dec:enumerated:L4:11syms:std", "b64dec:enumerated:L4:11syms:urlsafe", "b64dec:enumerated:L8:*:std",
        "b64dec:enumerated:L8:*:urlsafe", "b64dec:enumerated:L7:*",
        "b64dec:valid:0-pad:*", "b64dec:valid:1-pad:*", "b64dec:valid:2-pad:*",
        "b64dec:malformed:length%4=1:*", "b64dec:malformed:length%4=2:*", "b64dec:malformed:length%4=3:*",
        "b64dec:malformed:non-alphabet-char:pos0-of-final-group:*", "b64dec:malformed:non-alphabet-char:pos1-of-final-group:*",
        "b64dec:malformed:non-alphabet-char:pos2-of-final-group:1-pad:*", "b64dec:malformed:non-alphabet-char:pos3-of-final-group:*",
        "b64dec:malformed:non-alphabet-char:pos2-of-inner-group:*", "b64dec:malformed:padding-misplaced:inner-group:*",
        "b64dec:malformed:padding-misplaced:final-group:*", "b64dec:malformed:padding-then-data:*",
        "rot13:letters:*", "rot13:no-letters:*",
        "escape_url:keep-slash:escaped:*", "escape_url:escape-slash:escaped:*", "escape_url:keep-slash:verbatim:*",
        "escape_controls:ascii:escaped:*", "escape_controls:utf8:escaped:*", "escape_controls:utf8:verbatim:*",
        "escape_quotes:escaped:*", "escape_quotes:verbatim:*",
        "mt:concurrent:8threads:base64_encode:*", "mt:concurrent:8threads:base64_decode:flag1:*", "mt:concurrent:8threads:rot13:*",
        "mt:concurrent:8threads:escape_url:flag1:*", "mt:concurrent:8threads:escape_controls:flag0:*",
        "mt:concurrent:8threads:escape_controls:flag1:*", "mt:concurrent:8threads:escape_quotes:*", "mt:concurrent:8threads:netloc:*",
        "tsan:concurrent:8threads:escape_controls:*", "tsan:concurrent:8threads:escape_quotes:*", "tsan:concurrent:8threads:base64_decode:*",
        "tsan:concurrent:8threads:netloc:*",
        "big:b64enc:std:4K-16K", "big:b64enc:std:>=1MiB", "big:b64enc:urlsafe:4K-16K", "big:b64enc:urlsafe:>=1MiB",
        "big:b64dec:std:returned:>=1MiB", "big:b64dec:urlsafe:returned:>=1MiB", "big:b64dec:std:rejected:16K-64K",
        "big:b64dec:urlsafe:rejected:64K-1M", "big:rot13:>=1MiB", "big:escape_url:keep-slash:>=1MiB", "big:escape_url:escape-slash:>=1MiB",
        "big:escape_controls:ascii:>=1MiB", "big:escape_controls:utf8:>=1MiB", "big:escape_quotes:>=1MiB",
        "big:escape_url:*:4K-16K", "big:escape_controls:*:4K-16K", "big:escape_quotes:4K-16K",
        "early-call:b64enc:std:*", "early-call:b64enc:urlsafe:*", "early-call:b64dec:valid:*", "early-call:b64dec:malformed:*",
        "early-call:rot13:*", "early-call:escape_url:keep-slash:*", "early-call:escape_url:escape-slash:*",
        "early-call:escape_controls:ascii:*", "early-call:escape_controls:utf8:*", "early-call:escape_quotes:*", "early-call:netloc",
        "alignment:base64_encode:std:len<=80", "alignment:base64_encode:urlsafe:large", "alignment:base64_decode:std:len<=80",
        "alignment:base64_decode:urlsafe:large", "alignment:rot13:std:len<=80", "alignment:rot13:std:large",
        "b64sweep:sampled-vs-python:std:*", "b64sweep:sampled-vs-python:urlsafe:*", "exec:b64sweep:std:*", "exec:b64sweep:urlsafe:*",
        "netloc:host-1char*", "netloc:host-255+*", "netloc:*highbytes*", "netloc:*:ports-from0", "netloc:*:ports-to65535",
    ],
    "exhaustive": {"quick": False, "thorough": False},
    "exhaustive_note": "enumerated completely: byte strings of length 0..2 for every function; 4-character strings over 11 symbols "
                       "and 8-character strings over 6 (quick) / 7 (thorough) symbols for base64_decode with both alphabets; "
                       "ports 0..65535 for every host. Longer inputs are sampled.",
    "assumptions": ASSUME_COMMON + [
        "Python base64 / urllib.parse.unquote_to_bytes and the predicate/unescaper in vf/oracles/c11.py are correct (self-tested "
        "at the start of every run)",
        "'padding only in the last one or two positions' is read as: the set of '=' positions is empty, {n-1} or {n-2,n-1}; "
        "well-formed strings with non-zero discarded bits (e.g. \"QR==\") are neither required to decode nor to throw",
        "concurrency: the functions are pure functions of their arguments; schedules are those the OS produced for 8 free-running "
        "threads per process; TSan reports races on the executions it saw",
        "permitted characters: escape_url -> [A-Za-z0-9-_.~=&] ('/' too unless escape_slash) and %HH; escape_controls -> 0x20..0x7E "
        "(plus >=0x80 when escape_non_ascii is false) with quote, apostrophe, backslash only inside \\-escapes; escape_quotes -> "
        "0x20..0x7E with every '\"' directly preceded by a backslash",
    ],
}
