"""C01 — typed binary writer/reader round trip with exact big/little-endian byte layout."""
from ..props_common import ASSUME_COMMON

SPEC = {
    "level": "exploration",
    "technique": "runtime monitoring: shadow byte vector + independent shift/mask encoder/decoder + cursor model, under ASan/UBSan",
    "rule": "seeded scripts of 1..64 writer calls drawn from all 34 typed kinds (u8 s8; u/s16 u/s32 u/s64 f32 f64 x native/r/b/l) "
            "x put/pput x StringWriter/BufferWriter, plus write(ptr)/write(string)/pwrite/extend_to/extend_by/reset/cstr/line items; "
            "values from a boundary table (0, 1, all-ones, sign bit only, max, single byte lane, alternating bits, 2^k+-1, distinct lanes, "
            "inverted lane, uniform; floats: +-0, +-inf, quiet/signalling NaN payloads, denormals, normal edges); pput offsets: exact overwrite, "
            "inside, straddling the end, at the end, 1..256 past the end. The buffer is compared with the shadow after EVERY call, then the "
            "script is replayed through StringReader (3 constructors) sequentially with the matching accessor (value = value written, advance = "
            "encoded width, advance=false leaves the cursor), reverse-positionally, and at random offsets with all 42 reader kinds "
            "(named b/l incl. u/s24 u/s48, get<T> native, get<re_T>) against the decoder + arithmetic sign extension. Exhaustive: all 2^16 values "
            "through every 16-bit accessor, all 2^24 byte triples through every 24-bit accessor, all 2^16 top-halves x 6 low words through every "
            "48-bit accessor. Text part: cstr/line/read/readx/pread/preadx/skip/skip_if/getv/peek/go/truncate/sub/sub_bits against a cursor "
            "model. Bit part: BitWriter write/truncate/reset and BitReader read/pread/skip/go/eof against an MSB-first bit vector. "
            "Huge part (shards 0 and 1): sparse 6 GiB + 5 MiB MAP_NORESERVE mappings with position-keyed bytes planted +-16 KiB around byte "
            "2^28, 2^29, 2^30, 2^31, 2^32, 2^32+2^31 (= bit 2^31 .. 2^35+2^34), at the start and at the end; every StringReader family (42 typed "
            "kinds x get/peek/pget, read/readx/pread/preadx x string/pointer forms, getv/peek/pgetv, get_cstr/pget_cstr/get_line, skip/skip_if/go/"
            "truncate/ctor offset/where/size/remaining/eof, sub/subx/sub_bits/subx_bits incl. nested), BitReader read/pread/skip/go/truncate/ctor "
            "offset/observers and BufferWriter put/pput (34 kinds)/write/pwrite at offsets just below, straddling and above each threshold, plus "
            "single calls with distances/sizes of 2^31 .. 2^32+2^31 bytes (skip, getv, peek, pgetv, get<T>(advance,size), sub sizes, bit skips up to "
            "2^35+2^34; raw pointer-form transfers of > 2^32 bytes through windows onto one 8 MiB memfd), judged by a sparse page-map model, the "
            "independent decoder and uint64_t cursor arithmetic. "
            "distinct_nontrivial = distinct (writer, put|pput, kind), (base type, value class), (get|peek|pget, reader kind), pput position, "
            "and text/bit operation-shape classes observed.",
    "level_text": "Every execution explored is judged by an oracle that shares no code with phosg (pure shift/mask arithmetic), so a violation is a "
                  "concrete failing input against the real sanitizer-built library; silence covers the enumerated small scopes completely "
                  "(16-bit, 24-bit, 48-bit top half) and the seeded script space by sampling only.",
    "stages": [
        {"name": "c01", "variant": "asan", "shards": (16, 16), "args": ["alias_pput=1"]},
    ],
    "min_evaluations": 1000000,
    "min_classes": {"quick": 470, "thorough": 470},
    "required_classes": [
        "w:SW:put_u8", "w:SW:put_f64r", "w:SW:pput_s64b", "w:SW:pput_f32l", "w:BW:put_u16b", "w:BW:pput_f64", "w:BW:pput_s16r",
        "r:get:u24b", "r:get:s24l", "r:peek:s48b", "r:pget:s48l", "r:pget:u48b", "r:get:f32b", "r:get:f64n", "r:pget:u64r", "r:get:s8",
        "val:f32:snan-payload", "val:f64:qnan-payload", "val:f64:-0", "val:f32:denormal", "val:s64:signbit-only", "val:u16:single-lane",
        "pput-pos:SW:past-end", "pput-pos:SW:straddles-end", "pput-pos:SW:exact-overwrite", "pput-pos:BW:at-end",
        "narrow:s48b:negative,bit39-clear", "narrow:s48l:non-negative,bit39-set", "narrow:s24b:negative",
        "exhaustive:16-bit-values", "exhaustive:24-bit-values", "exhaustive:48-bit-top16-patterns",
        "line:unterminated-last", "line:CRLF", "line:LF", "cstr:get_cstr", "cstr:pget_cstr",
        "text:get_line:unterminated-last", "text:get_line:CRLF", "text:get_cstr:empty", "text:read:beyond-end", "text:skip_if:match", "text:sub_bits",
        "bits:write:single-bit", "bits:write:field64", "bits:truncate:mid-byte", "bits:read:64", "bits:pread", "bits:read:field-roundtrip",
        "alias:write(ptr,size):reallocates:sso", "alias:write(ptr,size):reallocates:heap", "alias:write(ptr,size):fits-capacity:heap",
        "alias:write(string):reallocates:sso", "alias:write(string):reallocates:heap", "alias:put<T>:reallocates:heap", "alias:put<T>:reallocates:sso",
        "alias:pput<T>:in-place", "alias:source-range:whole", "alias:source-range:prefix", "alias:source-range:middle", "alias:source-range:suffix",
        "own:StringReader(shared_ptr) + caller reference dropped", "own:BitReader(shared_ptr) + caller reference dropped",
        "own:copy of an owning reader after the original was destroyed", "reader:ctor(shared_ptr,offset):caller-reference-dropped",
        "bits:reader:ctor(shared_ptr,offset):caller-reference-dropped", "enumerated:alias-cases", "enumerated:ownership-cases",
        "w:Block:put<T>", "w:SW:reset", "w:SW:extend_to(default-fill)", "w:BW:pwrite(string)",
        # huge sparse buffers: a run in which the stage silently did not happen is inconclusive
        "huge:readers-done", "huge:writers-done",
        "huge:typed:2^31", "huge:typed:2^32", "huge:typed:2^32+2^31", "huge:typed:end",
        "huge:raw-skip:2^31", "huge:raw-skip:2^32", "huge:raw-skip:2^32+2^31", "huge:raw-skip:end",
        "huge:cstr-line:2^31", "huge:cstr-line:2^32", "huge:cstr-line:2^32+2^31", "huge:cstr-line:end",
        "huge:line-shape:CRLF", "huge:line-shape:LF", "huge:line-shape:unterminated-last",
        "huge:cursor:2^32", "huge:sub:2^31", "huge:sub:2^32", "huge:sub:2^32+2^31", "huge:distance:>=2^32",
        "huge:bits-read:2^28", "huge:bits-read:2^29", "huge:bits-read:2^30", "huge:bits-read:2^31", "huge:bits-read:2^32",
        "huge:bits-read:2^32+2^31", "huge:bits-read:end", "huge:bits-cursor:2^32", "huge:bit-distance:>=2^35",
        "huge:bw-pput:2^31", "huge:bw-pput:2^32", "huge:bw-pput:2^32+2^31", "huge:bw-pput:end",
        "huge:bw-pwrite:2^32", "huge:bw-put:2^31", "huge:bw-put:2^32", "huge:bw-put:2^32+2^31", "huge:bw-put:end",
        "huge:transfer:BufferWriter:>=2^32", "huge:transfer:StringReader:>=2^32",
    ],
    "exhaustive": {"quick": False, "thorough": False},
    "exhaustive_note": "complete in both tiers: every 16-bit value x every 16-bit put/get kind; every 24-bit byte triple x get/peek/pget u24b/u24l/s24b/s24l; "
                       "every top-16-bit pattern x 6 low words x get/peek/pget u48/s48 b/l. Script, text and bit parts are seeded samples.",
    "assumptions": ASSUME_COMMON + [
        "native (unsuffixed) values are read back through get<T>/pget<T> with T itself at suitably aligned addresses and through an alignment-1 POD wrapper elsewhere",
        "NaN payload preservation is observed on x86-64 SSE (float/double passed in xmm registers); an x87 ABI would quiet signalling NaNs outside phosg's control",
        "aliasing: raw blocks (write) and by-reference values (put<T>, in-place pput<T>) whose storage is the writer's own buffer are demanded; pput<T> with an aliased reference AND growth is driven too (--arg alias_pput=1) since fix c02-3 made it safe",
        "offsets / sizes beyond 2^32 are driven for the classes that can sit on caller-provided storage (StringReader, BitReader, BufferWriter); "
        "StringWriter, BitWriter, BlockStringWriter and the string-returning read forms own their storage, so instances or results of more than 4 GiB would need that much real memory and are not driven; "
        "the huge part needs 2 x 6 GiB of virtual address space with overcommit (MAP_NORESERVE) and memfd_create; if either is unavailable the run is inconclusive, not held",
        "only in-range operations are issued (bounds behaviour belongs to C02); get_line is driven only over text where a CR is either part of CRLF or followed by an ordinary byte",
    ],
}
