"""C09 — data strings and hex dumps decode back."""
from ..props_common import ASSUME_COMMON

SPEC = {
    "level": "exploration",
    "technique": "round-trip and decode-back oracles on the real code under ASan/UBSan: inline C++ round trip, "
                 "independent Python reference parser and hex-dump decoder, bounded libFuzzer on the parser",
    "rule": "data strings: every 1- and 2-byte string over all 256 values, every 3-byte string over 24 metacharacters "
            "(4/5-byte over 10), printable text with one special byte at every position, and seeded random strings of "
            "0..600 bytes (printable, metacharacter-heavy, random, value bands) x masks {none, all, none-set, alternating, "
            "runs, bytewise} x flags {0, HEX_ONLY} are formatted and parsed back; parser: grammar-generated well-formed "
            "texts (hex nybbles, \"..\", '..', $, #/##/###/####, %/%%, //, /* */, ?) are judged by a Python reference parser, "
            "and truncations / token insertions / mutations / random bytes / libFuzzer inputs must be accepted without a "
            "sanitizer report; hex dumps: 640 layout flag combinations x 6 colour/diff modes x 20 start-address kinds "
            "(0, unaligned, width boundaries, 2^32, 2^63, up to 2^64-len) x 8 data kinds are rendered and decoded back by a "
            "Python dump parser; every 1-4-way iovec partition of 0..40-byte buffers and random <=8-way partitions above "
            "are compared with the single-iovec rendering; every print_data/format_data entry point (pointer/size, string, "
            "vector<iovec>, iovec*/count; string-returning and FILE*) x {no prev, prev in the same partition, prev cut into a "
            "different number of pieces 1..4 vs 1..4} x colour {none, USE_COLOR, DISABLE_COLOR} is compared with the core "
            "rendering of the contiguous buffers; in six forked children (one per order of first use of {pty, tmpfile, pipe}) "
            "print_data with default colour flags must print format_data-without-colour to a non-tty and "
            "format_data-with-USE_COLOR to the pty whatever was printed to before; % / %% literals include the exact midpoint of adjacent floats/doubles and "
            "17-30-digit literals within 1e-17..1e-29 of it, judged by exact rational rounding; numeric literals are also spelled with an explicit plus sign, "
            "leading zeros, leading/trailing point, e/E with signed and zero-padded exponents, 40-800 digits, at the subnormal / underflow / overflow "
            "boundaries of the target type and ended by the end of the text (overflow judged as 'infinity or largest finite', underflow as "
            "'a zero of either sign'); hex floats, nan, infinity/INF, octal-looking, 0X, out-of-width and >2^64 integers are executed and counted "
            "only; the totality part walks every prefix of ~125 number spellings after every marker with 22 terminators. "
            "Prior history: for every entry of the shared catalogue of ~280 earlier unrelated uses of phosg's helpers (one string_printf output of "
            "every length 0..132 and around every power of two up to 1 MiB, runs of 5000 short outputs, join/split/fgets ladders, escapers, "
            "formatters, hash hex; harness/vf_history.hh) plus a seeded sample of two-step histories, a FRESH thread runs the prior and then a "
            "mini-workload ordered from short to long: 50 data-string round trips (lengths 0..300, quoted/hex, 6 mask kinds; inline oracle), "
            "the first 12 grammar texts of the shard (Python reference parser) and 46 dumps of 0..80 bytes at 6 address kinds x 12 flag sets, "
            "plain and colour+prev, a third of them through print_data(FILE*) (Python dump decoder); keys <op>:prior-history:<family>:... "
            "distinct_nontrivial = distinct (operation, generator/address "
            "kind, form/colour mode, mask/flag) classes observed, e.g. rt:meta-heavy:quoted:runs, dump:2^64-len:color+prev, "
            "grammar:int64-neg:be:off.",
    "level_text": "Exploration: seeded generation plus completely enumerated small scopes, each execution judged by an "
                  "oracle that does not share code with phosg (the formatter is judged by the parser and vice versa only in "
                  "the round trip; texts and dumps are judged by Python re-implementations of the documented syntax/layout). "
                  "Gives a refutation when any explored input breaks losslessness, the syntax definition, dump decoding, "
                  "highlighting, collapsing or partition independence, or raises a sanitizer report; says nothing about "
                  "inputs outside the explored classes (longer than 600 bytes, address ranges that wrap past 2^64, ALLOW_FILES).",
    "stages": [
        {"name": "c09", "variant": "asan", "shards": (16, 16)},
        {"kind": "py", "name": "c09-io", "func": "c09:stage_io"},
        {"kind": "py", "name": "c09-fuzz", "func": "c09:stage_fuzz"},
    ],
    "min_evaluations": 1500000,
    "min_classes": {"quick": 300, "thorough": 300},
    "required_classes": [
        "rt:all-1-byte:quoted:*", "rt:all-2-byte:quoted:*", "rt:all-2-byte:hex:*", "rt:meta-3-byte:quoted:*",
        "rt:printable+backslash@p:quoted:*", "rt:*:quoted:runs", "rt:*:hex:bytewise", "rt:*:quoted:nomask",
        "rt:len257-600:quoted", "rt:len257-600:hex", "rt:len0:*",
        "total:truncated:*", "total:insert-token:*", "total:token-soup:*", "total:short:*", "total:long-repeat:*",
        "iov:exhaustive-4way:pieces4:diff", "iov:exhaustive-4way:pieces4:nodiff", "iov:random-8way:pieces5:diff",
        "iov:len*:reaches-2^64", 
        "overload:print_data(FILE*,vector):prev-more-pieces", "overload:print_data(FILE*,vector):prev-fewer-pieces",
        "overload:print_data(FILE*,vector):prev-same-partition", "overload:print_data(FILE*,vector):prev-none",
        "overload:format_data(vector):prev-more-pieces", "overload:format_data(vector):prev-fewer-pieces",
        "overload:print_data(FILE*,iovec*,n):prev-more-pieces", "overload:print_data(FILE*,iovec*,n):prev-fewer-pieces",
        "overload:format_data(iovec*,n):prev-more-pieces", "overload:format_data(iovec*,n):prev-same-partition",
        "overload:print_data(FILE*,ptr,size):prev-contiguous", "overload:print_data(FILE*,string):prev-contiguous",
        "overload:format_data(ptr,size):prev-contiguous", "overload:format_data(string):prev-none",
        "overload:color-USE_COLOR:prev-more-pieces", "overload:color-none:prev-fewer-pieces",
        "overload:color-DISABLE_COLOR:prev-same-partition", "overload:pieces:1v4", "overload:pieces:3v1", "overload:pieces:4vsame",
        "streams:order:*", "streams:tmpfile:auto-colour:tmpfile-first", "streams:pipe:auto-colour:pipe-first",
        "streams:tmpfile:explicit-USE_COLOR:*", "streams:pipe:explicit-DISABLE_COLOR:*",
        "grammar:float-midpoint:le:*", "grammar:float-midpoint:be:*", "grammar:double-midpoint:le:*", "grammar:double-midpoint:be:*",
        "grammar:midpoint:float:exact", "grammar:midpoint:float:nearest-D", "grammar:midpoint:float:above-D",
        "grammar:midpoint:float:below-D", "grammar:midpoint:float:plus-eps", "grammar:midpoint:float:minus-eps",
        "grammar:midpoint:double:exact", "grammar:midpoint:double:above-D", "grammar:midpoint:double:minus-eps",
        "grammar:float-plus-sign:*", "grammar:double-plus-sign:*", "grammar:float-leading-zeros:*", "grammar:double-leading-zeros:*",
        "grammar:float-dot-edge:*", "grammar:double-dot-edge:*", "grammar:float-exp-marker:*", "grammar:double-exp-marker:*",
        "grammar:float-long-digits:*", "grammar:double-long-digits:*", "grammar:float-denormal:*", "grammar:double-denormal:*",
        "grammar:float-underflow:*", "grammar:double-underflow:*", "grammar:float-overflow:le:*", "grammar:float-overflow:be:*",
        "grammar:double-overflow:*", "grammar:float-overflow-edge:*", "grammar:double-overflow-edge:*",
        "grammar:float-mixed-spelling:*", "grammar:double-mixed-spelling:*", "grammar:int8-plus:*", "grammar:int16-plus:*",
        "grammar:int32-plus:*", "grammar:int64-plus:*", "grammar:number-at-end-of-text",
        "observe:hexfloat:*", "observe:nan:*", "observe:infinity-word:*", "observe:inf-case:*", "observe:space-before-float:*",
        "observe:int-leading-zero:*", "observe:int-over-2^64:*", "observe:int-out-of-width:*",
        "total:number-spelling:*", "total:number-spelling-prefix:*", "total:number-spelling-embedded:*", "total:long-number:*",
        "grammar:hex:le:off", "grammar:dq-char:*", "grammar:dq-escape:*", "grammar:sq-char:be:*", "grammar:sq-escape:le:*",
        "grammar:int8-*", "grammar:int16-neg:be:*", "grammar:int32-hex:*", "grammar:int64-neg:be:*", "grammar:int64-dec:le:*",
        "grammar:float:be:*", "grammar:float:le:*", "grammar:double:be:*", "grammar:double:le:*",
        "grammar:comment-line", "grammar:comment-block", "grammar:mask-toggle", "grammar:endian-toggle", "grammar:fixed-text",
        "dump:0:*", "dump:1-15:*", "dump:2^32-8:*", "dump:2^63:*", "dump:2^64-len:plain", "dump:2^64-len:color+prev",
        "dump:2^64-len-(1..15):*", "dump:2^64-4096+k:*", "dump:*:color+prev", "dump:*:prev-nocolor",
        "dump:range-reaches-2^64:ends-at-2^64", "dump:range-reaches-2^64:ends-in-last-line",
        "dump:collapse:lines-omitted", "dump:collapse:interior-lines-present", "dump:highlight:cells-highlighted",
        "dump:float:finite-field-checked:be", "dump:float:finite-field-checked:le",
        "dump:double:finite-field-checked:be", "dump:double:finite-field-checked:le",
        "dump:partial-first-line", "dump:partial-last-line", "dump:empty-buffer", "dump:lines:9+",
        "dump:flag:PRINT_ASCII", "dump:flag:SKIP_SEPARATOR", "dump:flag:COLLAPSE_ZERO_LINES", "dump:flag:OFFSET_8_BITS",
        "dump:flag:OFFSET_64_BITS", "dump:flag:REVERSE_ENDIAN_FLOATS", "dump:flag:DISABLE_COLOR", "dump:flag:USE_COLOR",
        "fuzz:process-completed-all-runs",
        "prior:none:rt", "prior:printf-len:rt", "prior:printf-run:rt", "prior:join:rt", "prior:split:rt", "prior:fgets:rt", "prior:escape:rt",
        "prior:format:rt", "prior:hash-hex:rt", "prior:two-step:rt", "rt:prior-history:quoted:*", "rt:prior-history:hex:*",
        "prior:none:io", "prior:printf-len:io", "prior:printf-run:io", "prior:join:io", "prior:fgets:io", "prior:escape:io", "prior:two-step:io",
        "prior:printf-len:judged-by-python", "prior:printf-run:judged-by-python", "prior:two-step:judged-by-python",
    ],
    "exhaustive": {"quick": False, "thorough": False},
    "exhaustive_note": "enumerated completely inside the sampled whole: all 1- and 2-byte data strings (x flags x 4 masks); "
                       "all 3-byte strings over 24 metacharacters; all 640 layout flag combinations x 6 colour/diff modes at "
                       "7 (quick) / 16 (thorough) start-address kinds for one buffer; all 1-4-way iovec partitions of "
                       "buffers of 0..40 bytes; every truncation and single-token insertion of 33 base parser texts",
    "assumptions": ASSUME_COMMON + [
        "float/double dump columns are judged only for finite values in fully covered fields (NaN/inf spelling and "
        "partially covered fields are not demanded); highlighting is judged in the hex and ASCII columns only",
        "address ranges with start+len > 2^64 (wrapping past the top of the address space) are not generated; "
        "ALLOW_FILES is never set",
        "grammar-generated texts are well-formed (numbers followed by white space or the end of the text, no '/*/' corner, "
        "ASCII-only '..' strings); ill-formed texts are judged for totality only",
        "float literals whose magnitude is not representable: 'infinity or the largest finite value with the literal's sign' is "
        "accepted for overflow and a zero of either sign for underflow to zero; hexadecimal floats, nan, 'infinity', upper-case "
        "INF, white space between marker and number, integers with leading zeros / 0X / negative hex / out of the width / beyond "
        "2^64 have no documented meaning and are counted (observe:*), not judged",
        "the stream-history part needs a pty (posix_openpt); if none can be opened the counter streams_no_pty is set and only "
        "tmpfile/pipe orders are exercised",
        "libc strtof/strtod/printf are trusted to be correctly rounded (the Python reference computes exact roundings)",
    ],
}
