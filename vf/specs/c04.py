"""C04 — JSON serialise -> parse is the identity for every value and option set."""
from ..props_common import ASSUME_COMMON

SPEC = {
    "level": "exploration",
    "technique": "runtime monitoring of the real serialize()/parse()/operator==/copy code under ASan+UBSan on generated value "
                 "trees x all 64 option sets x {default, strict}; accessor-walk oracle in C++ plus CPython json.loads on the "
                 "standard-option text",
    "rule": "value trees: 256 single-byte strings/keys, boundary integer table (0, +-1, +-2^k(+-1), INT64_MIN/MAX), floats m*10^e "
            "for every e in [-300,300] and 8 mantissas, empty containers at every position, chains of depth 200 (all enumerated, "
            "seed-independent) + seeded random trees (depth <= 6, <= 40 nodes; quick 2000, thorough 100000), each serialised "
            "with all 64 SerializeOption masks and parsed in default mode and, where mask is a subset of FORMAT|SORT_DICT_KEYS, "
            "strict mode. One evaluation = one (tree, mask, mode) round trip, one copy-monitor run, one assignment onto a pre-loaded destination, or one json.loads comparison. "
            "distinct_nontrivial = distinct classes among: option mask x mode (opt3f:default), generated leaf/key/container shape "
            "(gen:float:exp+, gen:key:high), copy-monitor mutation kind, assignment destination kind x source kind, CPython comparison per standard mask x root kind.",
    "level_text": "Exploration: the real code runs on every generated tree with every option mask; the systematic part "
                  "enumerates each byte value, each power-of-two integer boundary and each decimal exponent, the rest is seeded "
                  "sampling. Values outside the statement (NaN, infinities, denormals) are never generated.",
    "stages": [
        {"name": "c04", "variant": "asan", "shards": (16, 16), "timeout": (600, 3600)},
        {"kind": "py", "name": "c04-py", "func": "c04:stage"},
    ],
    "min_evaluations": 100000,
    "min_classes": {"quick": 120, "thorough": 120},
    "required_classes": ["opt00:default", "opt00:strict", "opt0c:strict", "opt3f:default", "opt01:default", "opt02:default",
                         "opt10:default", "opt20:default", "gen:float:exp+", "gen:float:exp-", "gen:float:plain:integral",
                         "gen:float:exp+:integral-mantissa", "gen:float:negzero", "gen:int:min", "gen:int:max", "gen:string:high",
                         "gen:string:ctrl", "gen:string:del", "gen:string:backslash", "gen:key:high", "gen:key:ctrl",
                         "gen:key:empty", "gen:list:empty:nested", "gen:dict:empty:nested", "gen:list:empty:root",
                         "gen:dict:empty:root", "copy:mutate:*", "copy:dict", "copy:list", "assign:onto-null:*", "assign:onto-string:*",
                         "assign:onto-list-shorter:list", "assign:onto-list-longer:*", "assign:onto-dict-disjoint-keys:dict",
                         "assign:onto-dict-overlapping-keys:dict", "assign:onto-dict-superset-keys:dict",
                         "assign:onto-dict-subset-keys:dict", "assign:onto-dict-same-keys:dict", "assign:onto-deep-tree:*",
                         "assign:onto-polluted-same-shape:dict", "assign:onto-polluted-same-shape:list",
                         "assign:onto-previous-tree:*", "py:std:opt00:*", "py:std:opt04:*",
                         "py:std:opt08:*", "py:std:opt0c:*"],
    "exhaustive": {"quick": False, "thorough": False},
    "exhaustive_note": "enumerated completely: all 64 option masks per tree; all 256 byte values as string and as key; "
                       "2^k-1, 2^k, 2^k+1 and negations for k<64; every decimal exponent -300..300 for 8 mantissas",
    "assumptions": ASSUME_COMMON + [
        "floats are compared at six significant digits (%.5e text of both sides), the precision serialize() keeps; a generated -0.0 / +0.0 must come back with the same sign bit",
        "CPython json.loads is the independent reader; text is mapped latin-1 <-> bytes because phosg writes one \\u00XX escape per byte",
        "NaN, infinities and denormals are outside the statement and are never generated; dictionary key order is not compared",
        "signed-overflow reports inside parse/serialize of INT64_MIN are recorded (ub_observations), the value oracle decides",
    ],
}
