"""C04 — JSON serialise -> parse is the identity for every value and option set."""
from ..props_common import ASSUME_COMMON

SPEC = {
    "level": "exploration",
    "technique": "runtime monitoring of the real serialize()/parse()/operator==/copy code under ASan+UBSan on generated value "
                 "trees x all 64 option sets x {default, strict}; accessor-walk oracle in C++ plus CPython json.loads on the "
                 "standard-option text",
    "rule": "value trees: 256 single-byte strings/keys, boundary integer table (0, +-1, +-2^k(+-1), INT64_MIN/MAX), floats m*10^e "
            "for every e in [-300,300] and 8 mantissas, empty containers at every position, chains of depth 200 (all enumerated, "
            "seed-independent) + seeded random trees (depth <= 6, <= 40 nodes; quick 2000, thorough 100000), each serialised "
            "with all 64 SerializeOption masks and parsed in default mode and, where mask is a subset of FORMAT|SORT_DICT_KEYS, "
            "strict mode. Size families (sizes enumerated, contents seeded): the laddered quantity takes the values 2^k-1, 2^k, "
            "2^k+1, 3*2^(k-1) (thorough also 3*2^(k-1)+1) for k from 4 up to the family's top: flat heterogeneous lists "
            "(2^16+1 quick / 2^19+1 thorough) and homogeneous lists, flat dicts with four key styles (2^15+1 / 2^17+1), dicts "
            "whose keys share a long all-byte-values prefix, tables (list/dict of lists/dicts, rows x cols up to 2^16 / 2^18 cells), "
            "a wide list or dict at depth d <= 450 of a chain, a chain of depth 10/120/450 at the first/middle/last index of a "
            "wide list, lists of chains, strings and keys of 15 .. 2^20+1 (2^22+1) bytes in five content styles, documents whose "
            "text is exactly 2^k-1, 2^k, 2^k+1 bytes under a rotating mask (k <= 20 / 22; one long string or many small elements), "
            "nesting depths 1..17, 2^k-1..2^k+1, ... 499, 500, and seeded random trees with log-uniform fan-out. Prior history: on a "
            "fresh thread, right after each one of the ~280 earlier unrelated uses of phosg's shared helpers in harness/vf_history.hh "
            "(plus a seeded sample of two-step histories), a ladder of leaf values and small containers whose serialised texts cover "
            "every length a number, constant, escape or small document can have (decimal ints of 1..19 digits and hex ints of 1..16 "
            "digits at the lowest / highest / a mixed-digit value with both signs, floats of every %g shape x %g length, null/true/false "
            "in both spellings, ASCII strings of 0..22 bytes, strings and keys needing 1..4 escapes, lists / dicts over those) under the "
            "options that change the text, once in increasing and once (another fresh thread) in decreasing order of text length. Documents heavier "
            "than w0 = 128 (512) weight units get a rotating subset of the masks (always one standard mask with default + strict "
            "parser and the CPython comparison; at least three masks), the others all 64. One evaluation = one (tree, mask, mode) round trip, one copy-monitor run, one assignment onto a pre-loaded destination, or one json.loads comparison. "
            "distinct_nontrivial = distinct classes among: option mask x mode (opt3f:default), generated leaf/key/container shape "
            "(gen:float:exp+, gen:key:high), copy-monitor mutation kind, assignment destination kind x source kind, CPython comparison per standard mask x root kind, "
            "size family x floor(log2(size)) (size:list:2^16), CPython comparison per size family and per floor(log2(text length)), "
            "prior-history value kind x text length (prior:textlen:int-hex:15), order and prior family.",
    "level_text": "Exploration: the real code runs on every generated tree with every option mask; the systematic part "
                  "enumerates each byte value, each power-of-two integer boundary and each decimal exponent, the rest is seeded "
                  "sampling. Container breadth, total node count, string/key length, total text length and nesting "
                  "depth are laddered over every power of two and 3*2^k up to the tops named in the rule (nesting stops at 500 levels: "
                  "the unchanged parser is recursive and C05 uses the same bound). "
                  "Values outside the statement (NaN, infinities, denormals) are never generated.",
    "stages": [
        {"name": "c04", "variant": "asan", "shards": (16, 16), "timeout": (900, 7200)},
        {"kind": "py", "name": "c04-py", "func": "c04:stage"},
    ],
    "min_evaluations": 100000,
    "min_classes": {"quick": 300, "thorough": 300},
    "required_classes": ["opt00:default", "opt00:strict", "opt0c:strict", "opt3f:default", "opt01:default", "opt02:default",
                         "opt10:default", "opt20:default", "gen:float:exp+", "gen:float:exp-", "gen:float:plain:integral",
                         "gen:float:exp+:integral-mantissa", "gen:float:negzero", "gen:int:min", "gen:int:max", "gen:string:high",
                         "gen:string:ctrl", "gen:string:del", "gen:string:backslash", "gen:key:high", "gen:key:ctrl",
                         "gen:key:empty", "gen:list:empty:nested", "gen:dict:empty:nested", "gen:list:empty:root",
                         "gen:dict:empty:root", "copy:mutate:*", "copy:dict", "copy:list", "assign:onto-null:*", "assign:onto-string:*",
                         "assign:onto-list-shorter:list", "assign:onto-list-longer:*", "assign:onto-dict-disjoint-keys:dict",
                         "assign:onto-dict-overlapping-keys:dict", "assign:onto-dict-superset-keys:dict",
                         "assign:onto-dict-subset-keys:dict", "assign:onto-dict-same-keys:dict", "assign:onto-deep-tree:*",
                         "assign:onto-polluted-same-shape:dict", "assign:onto-polluted-same-shape:list",
                         "assign:onto-previous-tree:*", "py:std:opt00:*", "py:std:opt04:*",
                         "py:std:opt08:*", "py:std:opt0c:*",
                         "size:list:2^12", "size:list:2^13", "size:list:2^16", "size:list-homogeneous:2^13", "size:dict:2^12",
                         "size:dict:2^15", "size:dict-shared-prefix:2^12", "size:table:list-of-lists:2^16",
                         "size:table:list-of-dicts:*", "size:table:dict-of-lists:*", "size:table:dict-of-dicts:*",
                         "size:wide-list-at-depth:2^15", "size:wide-dict-at-depth:2^12", "size:chain-in-wide-list:2^15",
                         "size:list-of-chains:2^12", "size:string:root:2^20", "size:string:key-and-value:2^20",
                         "size:string:root:2^15", "size:textlen:pad:2^20", "size:textlen:elements:2^16", "size:textlen:exact",
                         "size:depth:2^8", "size:depth:2^4", "size:random-wide:2^13", "size:masks:rotating-subset",
                         "size:masks:all64", "py:family:list", "py:family:dict", "py:family:dict-shared-prefix",
                         "py:family:table:list-of-lists", "py:family:string:root", "py:family:string:key-and-value",
                         "py:family:textlen:pad", "py:family:textlen:elements", "py:family:depth",
                         "py:family:chain-in-wide-list", "py:family:wide-list-at-depth", "py:family:random-wide",
                         "py:textlen:2^16", "py:textlen:2^20",
                         "prior:order:increasing", "prior:order:decreasing", "prior:family:none", "prior:family:printf-len",
                         "prior:family:printf-run", "prior:family:join", "prior:family:format", "prior:textlen:int-dec:1",
                         "prior:textlen:int-dec:15", "prior:textlen:int-dec:16", "prior:textlen:int-dec:20", "prior:textlen:int-hex:3",
                         "prior:textlen:int-hex:14", "prior:textlen:int-hex:15", "prior:textlen:int-hex:16", "prior:textlen:int-hex:19",
                         "prior:textlen:float:plain:3", "prior:textlen:float:exp-:13", "prior:textlen:float:exp+:integral-mantissa:7",
                         "prior:textlen:float:plain:integral:3", "prior:textlen:trivial:1", "prior:textlen:trivial:5",
                         "prior:textlen:string:high", "prior:textlen:string:ctrl", "prior:textlen:string:ascii:24",
                         "prior:textlen:document:2", "prior:textlen:document:24", "py:family:prior-history"],
    "exhaustive": {"quick": False, "thorough": False},
    "exhaustive_note": "enumerated completely: all 64 option masks per tree; all 256 byte values as string and as key; "
                       "2^k-1, 2^k, 2^k+1 and negations for k<64; every decimal exponent -300..300 for 8 mantissas; the size "
                       "ladders (2^k-1, 2^k, 2^k+1, 3*2^(k-1)) of every size family up to its top",
    "assumptions": ASSUME_COMMON + [
        "prior history is modelled per thread: one earlier use (or two) of the shared helpers on a freshly started thread, then the ladder; process-wide state that survives across threads is covered only by the order in which the shards' threads run",
        "floats are compared at six significant digits (%.5e text of both sides), the precision serialize() keeps; a generated -0.0 / +0.0 must come back with the same sign bit",
        "CPython json.loads is the independent reader; text is mapped latin-1 <-> bytes because phosg writes one \\u00XX escape per byte",
        "NaN, infinities and denormals are outside the statement and are never generated; dictionary key order is not compared",
        "large documents (size families) run a rotating subset of the 64 masks; nesting is exercised up to 500 levels only (the unchanged recursive parser overflows the stack near 6000)",
        "signed-overflow reports inside parse/serialize of INT64_MIN are recorded (ub_observations), the value oracle decides",
    ],
}
