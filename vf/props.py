"""Per-property check specifications: one module per property under vf/specs/ (cNN.py defining SPEC)."""
import importlib
import os
import re
import sys

from .props_common import ASSUME_COMMON  # noqa: F401

_d = os.path.join(os.path.dirname(os.path.abspath(__file__)), "specs")


def get(pid):
    return importlib.import_module("vf.specs." + pid.lower()).SPEC


def available():
    out = []
    for fn in sorted(os.listdir(_d)):
        m = re.match(r"^c(\d\d)\.py$", fn)
        if m:
            out.append("C" + m.group(1))
    return out


class _Specs(dict):
    """Lazy mapping: a broken spec module of one property must not break the others."""

    def __missing__(self, pid):
        self[pid] = get(pid)
        return self[pid]

    def load_all(self):
        for pid in available():
            try:
                self[pid]
            except Exception as ex:  # noqa: BLE001
                print("WARNING: spec %s not loadable: %r" % (pid, ex), file=sys.stderr)
        return self


SPECS = _Specs()
