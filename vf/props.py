"""Per-property check specifications: one module per property under vf/specs/ (cNN.py defining SPEC)."""
import importlib
import os
import re

from .props_common import ASSUME_COMMON  # noqa: F401

SPECS = {}
_d = os.path.join(os.path.dirname(os.path.abspath(__file__)), "specs")
for _fn in sorted(os.listdir(_d)):
    _m = re.match(r"^c(\d\d)\.py$", _fn)
    if _m:
        SPECS["C" + _m.group(1)] = importlib.import_module("vf.specs." + _fn[:-3]).SPEC
