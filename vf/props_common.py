ASSUME_COMMON = [
    "little-endian x86-64 host only; big-endian branches of Platform.hh/Encoding.hh are never executed",
    "g++ 12 ASan/UBSan runtime reports are trusted; ASan red zones miss intra-object and far out-of-bounds accesses",
    "verdict covers only the executions produced by this run (seeded generators + enumerated small scopes)",
]
